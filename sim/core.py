"""Shared pieces of the simulator: seed derivation, event log, violations, ddmin.

Nothing in this file imports jax; the parent process of a check never imports jax.
"""
from __future__ import annotations

import hashlib
import json
import random
from typing import Any, Callable, Iterable, Sequence


# --------------------------------------------------------------------------- seeds
def derive_seed(master: int, *labels: Any) -> int:
    """One integer decides everything: per-run seeds are a pure function of the master seed
    and a label path (engine, property, run index)."""
    h = hashlib.blake2b(digest_size=8)
    h.update(str(int(master)).encode())
    for lab in labels:
        h.update(b"/")
        h.update(str(lab).encode())
    return int.from_bytes(h.digest(), "big") >> 1  # 63 bit, fits a JSON integer everywhere


def make_rng(seed: int) -> random.Random:
    return random.Random(seed)


# --------------------------------------------------------------------------- event log
class EventLog:
    """(seq, kind, payload) records with a running sha256. Logging never draws from a PRNG and
    never reads a clock. Payloads must be JSON-able or bytes."""

    def __init__(self, seed: int, keep: int = 400):
        self._h = hashlib.sha256()
        self.seq = 0
        self.keep = keep
        self.head: list[Any] = []
        self.kinds: list[str] = []
        self.add("seed", seed)

    def add(self, kind: str, payload: Any = None) -> None:
        self.seq += 1
        if isinstance(payload, (bytes, bytearray)):
            blob = bytes(payload)
            shown: Any = hashlib.sha256(blob).hexdigest()[:16]
        else:
            blob = json.dumps(payload, sort_keys=True, default=_json_default).encode()
            shown = payload
        self._h.update(kind.encode())
        self._h.update(b"\0")
        self._h.update(blob)
        self._h.update(b"\1")
        self.kinds.append(kind)
        if len(self.head) < self.keep:
            self.head.append([self.seq, kind, shown])

    def digest(self) -> str:
        return self._h.hexdigest()


def _json_default(o: Any) -> Any:
    try:
        import numpy as np

        if isinstance(o, np.ndarray):
            return {"__nd__": o.tolist(), "dtype": str(o.dtype)}
        if isinstance(o, (np.integer,)):
            return int(o)
        if isinstance(o, (np.floating,)):
            return float(o)
        if isinstance(o, (np.bool_,)):
            return bool(o)
    except Exception:  # pragma: no cover
        pass
    if isinstance(o, (set, frozenset)):
        return sorted(o)
    if isinstance(o, tuple):
        return list(o)
    return repr(o)


def jdump(o: Any, **kw: Any) -> str:
    return json.dumps(o, default=_json_default, **kw)


# --------------------------------------------------------------------------- violations
class Violation(Exception):
    """An oracle of a *property* failed on the system under test."""

    def __init__(self, prop: str, clause: str, detail: Any = None, site: str = ""):
        super().__init__(f"{prop}:{clause}: {detail}")
        self.prop = prop
        self.clause = clause
        self.detail = detail
        self.site = site  # call site / operand pattern, used to match known findings

    def key(self) -> tuple[str, str]:
        return (self.prop, self.clause)

    def to_json(self) -> dict:
        return {"property": self.prop, "clause": self.clause, "site": self.site, "detail": self.detail}


class SimCrash(BaseException):
    """Injected process death. BaseException so that no `except Exception` in the code under test
    can swallow it; unwinds exactly as a kill would, leaving only the simulated disk behind."""


class StepBudgetExceeded(BaseException):
    """Raised from a seam when the system makes more steps than the liveness bound allows."""


class HarnessError(Exception):
    """The harness itself is broken (bad plan, worker death). Never reported as VIOLATION."""


def match_known(v: dict, known: list) -> "dict | None":
    """A violation is a known finding only if property, clause and the site pattern all match an entry whose
    status is 'known'. 'fixed' entries suppress nothing."""
    import re

    for k in known:
        if k.get("status") != "known":
            continue
        if k["property"] != v["property"]:
            continue
        if k.get("clause") and k["clause"] != v["clause"]:
            continue
        pat = k.get("site_regex")
        if pat and not re.search(pat, v.get("site", "")):
            continue
        return k
    return None


# --------------------------------------------------------------------------- ddmin
def ddmin(items: Sequence[Any], fails: Callable[[list[Any]], bool], max_tests: int = 400) -> list[Any]:
    """Classic delta debugging to a 1-minimal failing subsequence. `fails(sub)` must be
    deterministic. Bounded by max_tests evaluations."""
    items = list(items)
    tests = 0
    n = 2
    while len(items) >= 2 and tests < max_tests:
        chunk = max(1, len(items) // n)
        subsets = [items[i : i + chunk] for i in range(0, len(items), chunk)]
        reduced = False
        # try complements first (drops one chunk)
        for i in range(len(subsets)):
            comp = [x for j, s in enumerate(subsets) if j != i for x in s]
            tests += 1
            if comp and fails(comp):
                items = comp
                n = max(n - 1, 2)
                reduced = True
                break
            if tests >= max_tests:
                break
        if not reduced:
            if n >= len(items):
                break
            n = min(len(items), n * 2)
    # final single-element removal pass
    i = 0
    while i < len(items) and tests < max_tests and len(items) > 1:
        cand = items[:i] + items[i + 1 :]
        tests += 1
        if fails(cand):
            items = cand
        else:
            i += 1
    return items


def shape_hash(kinds: Iterable[str]) -> str:
    h = hashlib.sha1()
    for k in kinds:
        h.update(k.encode())
        h.update(b",")
    return h.hexdigest()[:16]
