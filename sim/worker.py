"""Worker process: runs its share of every batch of one check and writes a JSON result file.

usage: worker.py <job.json> <worker_index> <out.json>
Started by sim/main.py with the environment already set (XLA flags, PYTHONPATH, PYTHONHASHSEED).
"""
from __future__ import annotations

import faulthandler
import importlib
import json
import os
import sys
import time
import traceback

HERE = os.path.dirname(os.path.abspath(__file__))
sys.path.insert(0, os.path.dirname(HERE))

from sim.core import Violation, derive_seed, jdump, make_rng, match_known, shape_hash  # noqa: E402


def enable_compile_cache() -> None:
    d = os.environ.get("VERIF_JAX_CACHE")
    if not d:
        return
    try:
        import jax

        os.makedirs(d, exist_ok=True)
        jax.config.update("jax_compilation_cache_dir", d)
        jax.config.update("jax_persistent_cache_min_compile_time_secs", 0)
        jax.config.update("jax_persistent_cache_min_entry_size_bytes", -1)
    except Exception:
        pass


def release_compiled_code() -> None:
    """Long batches compile thousands of XLA executables per process; the JIT'ed code sections are never unmapped and
    LLVM eventually fails with 'Unable to allocate section memory'. Dropping JAX's in-process caches releases them
    (results are unaffected: everything is recompiled on demand, the on-disk compile cache of this invocation stays)."""
    try:
        import gc

        import jax

        jax.clear_caches()
        gc.collect()
    except Exception:
        pass


def load_engine(name: str):
    return importlib.import_module(f"sim.engines.{name}")


def run_one(engine, plan, ctx):
    """Execute a plan; returns outcome dict. Harness exceptions propagate."""
    return engine.execute(plan, ctx)


def first_violation(out):
    v = out.get("violations") or []
    return v[0] if v else None


def same_violation(out, prop, clause):
    for v in out.get("violations") or []:
        if v["property"] == prop and v["clause"] == clause:
            return v
    return None


def main() -> int:
    job_path, widx, out_path = sys.argv[1], int(sys.argv[2]), sys.argv[3]
    with open(job_path) as f:
        job = json.load(f)
    faulthandler.enable()
    hard = float(job.get("hard_timeout_s", 3600))
    faulthandler.dump_traceback_later(hard, exit=True)
    nworkers = int(job["workers"])
    master = int(job["seed"])
    prop = job["property"]
    t_start = time.time()
    result = {"worker": widx, "batches": [], "harness_errors": [], "violations": [], "other": []}
    ctxs: dict = {}
    max_viol = int(job.get("max_violations_per_worker", 2))
    new_count = 0
    known_recorded = 0
    try:
        enable_compile_cache()
        for b_i, batch in enumerate(job["batches"]):
            engine = load_engine(batch["engine"])
            ctx = ctxs.get(batch["engine"])
            if ctx is None:
                ctx = engine.setup(job, widx)
                ctxs[batch["engine"]] = ctx
            profile = batch.get("profile", {})
            n_runs = int(batch["n_runs"])
            budget = float(batch.get("budget_s", 1e9))
            t0 = time.time()
            agg = {
                "engine": batch["engine"],
                "label": batch.get("label", batch["engine"]),
                "runs": 0,
                "evaluations": 0,
                "counters": {},
                "faults": {},
                "shapes_nontrivial": set(),
                "shapes_all": set(),
                "sim_time_s": 0.0,
                "samples": [],
                "digests": {},
                "discarded": 0,
                "truncated": False,
            }
            explicit = batch.get("indices")
            indices = explicit if explicit is not None else range(widx, n_runs, nworkers)
            clear_every = int(batch.get("clear_caches_every", 60 if batch["engine"] in ("e2_train", "e4_lifecycle") else 400))
            for i in indices:
                if time.time() - t0 > budget:
                    agg["truncated"] = True
                    break
                if agg["runs"] and agg["runs"] % clear_every == 0:
                    release_compiled_code()
                seed = derive_seed(master, batch["engine"], batch.get("label", ""), i)
                rng = make_rng(seed)
                plan = engine.gen_plan(rng, dict(profile, _index=i), seed)
                plan["seed"] = seed
                plan["engine"] = batch["engine"]
                plan["profile"] = profile
                t_run = time.time()
                out = run_one(engine, plan, ctx)
                print(f"[w{widx}] {agg['label']} run {i} seed {seed}: {time.time() - t_run:.1f}s, {time.time() - t0:.0f}s of {budget:.0f}s budget", flush=True)
                agg["runs"] += 1
                agg["evaluations"] += int(out.get("evaluations", 0))
                for k, v in (out.get("counters") or {}).items():
                    agg["counters"][k] = agg["counters"].get(k, 0) + v
                for k, v in (out.get("faults") or {}).items():
                    agg["faults"][k] = agg["faults"].get(k, 0) + v
                sh = out.get("shape") or shape_hash(out.get("kinds", []))
                agg["shapes_all"].add(sh)
                if out.get("nontrivial"):
                    agg["shapes_nontrivial"].add(sh)
                agg["sim_time_s"] += float(out.get("sim_time_s", 0.0))
                if out.get("discarded"):
                    agg["discarded"] += 1
                if job.get("record_digests"):
                    agg["digests"][str(i)] = out.get("digest")
                if len(agg["samples"]) < 2 and out.get("nontrivial"):
                    agg["samples"].append({"seed": seed, "plan": plan, "trace_head": out.get("trace_head", [])[:40]})
                mine = [v for v in (out.get("violations") or []) if v["property"] == prop]
                for v in (out.get("violations") or []):
                    if v["property"] != prop and len(result["other"]) < 20:
                        result["other"].append({"property": v["property"], "clause": v["clause"], "site": v.get("site", ""), "seed": seed})
                if mine:
                    is_known = match_known(mine[0], job.get("known", [])) is not None
                    if is_known and known_recorded >= 3:
                        continue  # already documented by three replays from this worker; keep exploring
                    rec = handle_violation(engine, plan, ctx, out, mine[0], prop, dict(job, no_shrink=job.get("no_shrink") or is_known))
                    result["violations"].append(rec)
                    if is_known:
                        known_recorded += 1
                    else:
                        new_count += 1
                    if new_count >= max_viol:
                        agg["truncated"] = True
                        break
            agg["shapes_nontrivial"] = sorted(agg["shapes_nontrivial"])
            agg["shapes_all"] = sorted(agg["shapes_all"])
            agg["wall_s"] = time.time() - t0
            result["batches"].append(agg)
            if new_count >= max_viol:
                break
    except BaseException as e:  # harness failure: classified apart from violations
        result["harness_errors"].append(
            {"type": type(e).__name__, "msg": str(e)[:2000], "tb": traceback.format_exc()[-6000:]}
        )
    result["wall_s"] = time.time() - t_start
    tmp = out_path + ".tmp"
    with open(tmp, "w") as f:
        f.write(jdump(result))
    os.replace(tmp, out_path)
    faulthandler.cancel_dump_traceback_later()
    return 0


def handle_violation(engine, plan, ctx, out, v, prop, job):
    """Shrink while the same (property, clause) persists, then write the replay file."""
    vprop, clause = v["property"], v["clause"]
    best_plan, best_out, best_v = plan, out, v
    shrink_steps = 0
    if hasattr(engine, "shrink") and not job.get("no_shrink"):
        def fails(p):
            o = run_one(engine, p, ctx)
            return same_violation(o, vprop, clause) is not None

        try:
            cand = engine.shrink(plan, fails)
            o = run_one(engine, cand, ctx)
            vv = same_violation(o, vprop, clause)
            if vv is not None:
                best_plan, best_out, best_v = cand, o, vv
                shrink_steps = 1
        except Exception as e:  # shrinking is best effort; the unshrunk plan is still a valid replay
            best_v = dict(best_v)
            best_v["shrink_error"] = f"{type(e).__name__}: {e}"
    replay_dir = job["replay_dir"]
    os.makedirs(replay_dir, exist_ok=True)
    path = os.path.join(replay_dir, f"{vprop}-{plan['seed']}.json")
    replay = {
        "property": vprop,
        "clause": clause,
        "site": best_v.get("site", ""),
        "seed": plan["seed"],
        "engine": plan["engine"],
        "plan": best_plan,
        "original_plan_size": engine.plan_size(plan) if hasattr(engine, "plan_size") else None,
        "minimised_plan_size": engine.plan_size(best_plan) if hasattr(engine, "plan_size") else None,
        "detail": best_v.get("detail"),
        "digest": best_out.get("digest"),
        "trace_head": best_out.get("trace_head", [])[:200],
        "shrunk": bool(shrink_steps),
    }
    with open(path, "w") as f:
        f.write(jdump(replay, indent=1))
    return {
        "property": vprop,
        "clause": clause,
        "site": best_v.get("site", ""),
        "detail": best_v.get("detail"),
        "replay": path,
        "seed": plan["seed"],
        "for_property": prop,
    }


if __name__ == "__main__":
    sys.exit(main())
