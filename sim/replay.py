"""Replay a minimised failing run in a fresh interpreter: replay.py <file.json>

exit 1 + VIOLATION line if the same (property, clause) is reproduced (digest equality is reported),
exit 0 if the plan now passes (e.g. after a repair), exit 2 on harness failure.
"""
from __future__ import annotations

import importlib
import json
import os
import sys
import traceback

HERE = os.path.dirname(os.path.abspath(__file__))
sys.path.insert(0, os.path.dirname(HERE))


def main() -> int:
    path = sys.argv[1]
    with open(path) as f:
        rep = json.load(f)
    try:
        engine = importlib.import_module(f"sim.engines.{rep['engine']}")
        job = {"property": rep["property"], "tier": "quick", "seed": rep["seed"], "workers": 1, "replay": True}
        ctx = engine.setup(job, 0)
        out = engine.execute(rep["plan"], ctx)
    except BaseException:
        traceback.print_exc()
        print("replay: harness failure")
        return 2
    hit = None
    for v in out.get("violations") or []:
        if v["property"] == rep["property"] and v["clause"] == rep["clause"]:
            hit = v
            break
    print(f"replay: seed={rep['seed']} engine={rep['engine']} plan_size={rep.get('minimised_plan_size')}")
    for line in (out.get("trace_head") or [])[:60]:
        print("  ", json.dumps(line)[:300])
    if hit is None:
        others = [(v["property"], v["clause"]) for v in out.get("violations") or []]
        print(f"replay: violation {rep['property']}:{rep['clause']} NOT reproduced on this tree (other violations: {others})")
        return 0
    same = out.get("digest") == rep.get("digest")
    print(f"replay: reproduced clause={hit['clause']} site={hit.get('site', '')} digest_equal={same}")
    print(f"replay: detail={json.dumps(hit.get('detail'))[:1500]}")
    print(f"VIOLATION property={rep['property']} replay={path}")
    return 1


if __name__ == "__main__":
    sys.exit(main())
