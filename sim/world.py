"""The simulated environment of a run: clock, disk, wandb, crash plan, seam counter.

Seams are installed by module-attribute patching of ``ginjax.ml.training`` (no repo hook):
``training.time`` -> SimClock, ``training.open`` -> SimDisk.open, ``training.wandb`` -> SimWandb,
``training.get_batches`` -> recording wrapper around the real function.
"""
from __future__ import annotations

import errno
import io
import random
from typing import Any, Callable, Optional

from .core import EventLog, SimCrash, StepBudgetExceeded


class FaultCounts(dict):
    def hit(self, kind: str, n: int = 1) -> None:
        self[kind] = self.get(kind, 0) + n


# --------------------------------------------------------------------------- clock
class SimClock:
    """Stands in for the ``time`` module inside ginjax.ml.training. Each read advances simulated
    time by a planned increment; the plan may contain jumps, stalls and backward steps."""

    def __init__(self, world: "World", plan: Optional[list[float]] = None, default_dt: float = 30.0):
        self.world = world
        self.now = 1_700_000_000.0
        self.plan = list(plan or [])
        self.default_dt = default_dt
        self.reads = 0
        self.covered = 0.0

    def time(self) -> float:
        self.world.seam("clock")
        dt = self.plan[self.reads] if self.reads < len(self.plan) else self.default_dt
        self.reads += 1
        if dt == 0:
            self.world.faults.hit("clock_stall")
        elif dt < 0:
            self.world.faults.hit("clock_backwards")
        elif dt > 1e5:
            self.world.faults.hit("clock_jump")
        self.now += dt
        self.covered += abs(dt)
        self.world.log.add("clock", self.now)
        return self.now

    # anything else the code might ask of `time`
    def time_ns(self) -> int:
        return int(self.time() * 1e9)

    def sleep(self, s: float) -> None:  # never called by ginjax; virtual if it ever is
        self.now += s
        self.covered += s


# --------------------------------------------------------------------------- disk
class _Inode:
    __slots__ = ("durable", "cache", "cache_mode")

    def __init__(self) -> None:
        self.durable: Optional[bytes] = None
        self.cache: Optional[bytearray] = None
        self.cache_mode = "trunc"  # how the dirty cache came about: "trunc" (opened 'wb': old blocks freed) or "inplace" ('r+b'/'ab')

    def visible(self) -> Optional[bytes]:
        if self.cache is not None:
            return bytes(self.cache)
        return self.durable


class _SimRawWriter(io.RawIOBase):
    """Raw file opened for writing ('wb', 'ab', 'xb', 'r+b'). Position based: 'r+b' overwrites in place."""

    def __init__(self, disk: "SimDisk", path: str, inode: _Inode, pos: int = 0, readable: bool = False):
        super().__init__()
        self.disk = disk
        self.path = path
        self.inode = inode
        self.pos = pos
        self._readable = readable

    def writable(self) -> bool:
        return True

    def readable(self) -> bool:
        return self._readable

    def seekable(self) -> bool:
        return True

    def tell(self) -> int:
        return self.pos

    def seek(self, off: int, whence: int = 0) -> int:
        size = len(self.inode.cache or b"")
        self.pos = max(0, off if whence == 0 else (self.pos + off if whence == 1 else size + off))
        return self.pos

    def truncate(self, size: Optional[int] = None) -> int:
        self.disk.world.seam("disk_truncate")
        if self.disk.dead:
            raise SimCrash("process is dead")
        size = self.pos if size is None else size
        assert self.inode.cache is not None
        if size < len(self.inode.cache):
            del self.inode.cache[size:]
        else:
            self.inode.cache.extend(b"\0" * (size - len(self.inode.cache)))
        return size

    def fileno(self) -> int:
        return self.disk.fd_for(self.inode)

    def readinto(self, b: Any) -> int:  # type: ignore[override]
        mv = memoryview(b).cast("B")
        data = self.inode.cache or b""
        n = min(len(mv), max(0, len(data) - self.pos))
        mv[:n] = data[self.pos : self.pos + n]
        self.pos += n
        return n

    def write(self, b: Any) -> int:  # type: ignore[override]
        d = self.disk
        w = d.world
        if d.dead:
            raise SimCrash("process is dead: no write reaches the disk")
        w.seam("disk_write")
        d.write_calls += 1
        if d.crash_at_write is not None and d.write_calls >= d.crash_at_write:
            d.crash_at_write = None
            d.dead = True
            w.faults.hit("crash@inside_checkpoint_write")
            w.log.add("crash", ["disk_write", d.write_calls])
            raise SimCrash("killed inside a checkpoint write")
        mv = memoryview(b).cast("B")
        n = len(mv)
        fault = d.write_faults.get(d.write_calls)
        if fault == "enospc":
            w.faults.hit("disk_enospc")
            w.log.add("disk_fault", ["enospc", d.write_calls])
            raise OSError(errno.ENOSPC, "No space left on device (simulated)")
        if fault == "eio":
            w.faults.hit("disk_eio")
            w.log.add("disk_fault", ["eio", d.write_calls])
            raise OSError(errno.EIO, "Input/output error (simulated)")
        if fault == "short" and n > 1:
            k = 1 + (d.write_calls * 2654435761) % (n - 1)
            w.faults.hit("disk_short_write")
            n = k
        cache = self.inode.cache
        assert cache is not None
        if self.pos > len(cache):
            cache.extend(b"\0" * (self.pos - len(cache)))
        cache[self.pos : self.pos + n] = mv[:n].tobytes()
        self.pos += n
        w.log.add("disk_write", [self.path, n])
        return n


class _SimWriteFile:
    """What SimDisk.open(..., 'wb') returns: CPython's real io.BufferedWriter does the buffering and the retrying of
    short writes; this thin wrapper adds fileno() (for os.fsync) without being an io.BufferedWriter instance, so that
    numpy keeps using write() instead of handing a fake descriptor to ndarray.tofile."""

    def __init__(self, disk: "SimDisk", path: str, inode: _Inode, buffered: io.BufferedWriter):
        self._disk, self._path, self._inode, self._b = disk, path, inode, buffered
        self.name = path
        self.mode = "wb"

    def write(self, b: Any) -> int:
        return self._b.write(b)

    def flush(self) -> None:
        self._b.flush()

    def fileno(self) -> int:
        return self._disk.fd_for(self._inode)

    def tell(self) -> int:
        return self._b.tell()

    def seek(self, off: int, whence: int = 0) -> int:
        return self._b.seek(off, whence)

    def truncate(self, size: Optional[int] = None) -> int:
        return self._b.truncate(size)

    def __getattr__(self, name: str) -> Any:  # anything else a file object offers
        return getattr(self._b, name)

    def writable(self) -> bool:
        return True

    def readable(self) -> bool:
        return False

    def seekable(self) -> bool:
        return True

    @property
    def closed(self) -> bool:
        return self._b.closed

    def close(self) -> None:
        already = self._b.closed
        self._b.close()
        if not already:
            d = self._disk
            d.writes_completed[self._path] = d.writes_completed.get(self._path, 0) + 1
            d.world.log.add("disk_close", [self._path, len(self._inode.cache or b"")])

    def __enter__(self) -> "_SimWriteFile":
        return self

    def __exit__(self, *exc: Any) -> None:
        self.close()


class _SimRawReader(io.RawIOBase):
    def __init__(self, disk: "SimDisk", path: str, data: bytes):
        super().__init__()
        self.disk = disk
        self.path = path
        self.data = data
        self.pos = 0

    def readable(self) -> bool:
        return True

    def seekable(self) -> bool:
        return True

    def tell(self) -> int:
        return self.pos

    def seek(self, off: int, whence: int = 0) -> int:
        if whence == 0:
            self.pos = off
        elif whence == 1:
            self.pos += off
        else:
            self.pos = len(self.data) + off
        self.pos = max(0, self.pos)
        return self.pos

    def readinto(self, b: Any) -> int:  # type: ignore[override]
        d = self.disk
        w = d.world
        w.seam("disk_read")
        d.read_calls += 1
        mv = memoryview(b).cast("B")
        n = min(len(mv), max(0, len(self.data) - self.pos))
        fault = d.read_faults.get(d.read_calls)
        if fault == "eio":
            w.faults.hit("disk_read_eio")
            raise OSError(errno.EIO, "Input/output error (simulated)")
        if fault == "short" and n > 1:
            n = 1 + (d.read_calls * 40503) % (n - 1)
            w.faults.hit("disk_short_read")
        mv[:n] = self.data[self.pos : self.pos + n]
        self.pos += n
        return n


class SimDisk:
    """File system below ``open``. Each inode has durable bytes and a page cache; ``crash`` keeps
    durable content overlaid with a seeded subset of cached 512-byte blocks."""

    BLOCK = 512

    def __init__(self, world: "World"):
        self.world = world
        self.inodes: dict[str, _Inode] = {}
        self.write_calls = 0
        self.read_calls = 0
        self.open_calls = 0
        self.write_faults: dict[int, str] = {}
        self.read_faults: dict[int, str] = {}
        self.buffer_size = io.DEFAULT_BUFFER_SIZE
        self.dead = False  # set while a crash unwinds: buffered data is never flushed
        self.fds: dict[int, _Inode] = {}
        self.crash_at_write: Optional[int] = None  # die when the raw write with this ordinal is attempted
        self.writes_completed: dict[str, int] = {}  # path -> number of successful closes

    # ---- the part of `os` a checkpoint routine may use (installed only if the module under test imports os)
    def fd_for(self, inode: "_Inode") -> int:
        for fd, ino in self.fds.items():
            if ino is inode:
                return fd
        fd = 1000 + len(self.fds)
        self.fds[fd] = inode
        return fd

    def fsync(self, fd: int) -> None:
        self.world.seam("disk_fsync")
        if self.dead:
            raise SimCrash("process is dead")
        ino = self.fds.get(fd)
        if ino is None:
            raise OSError(errno.EBADF, "Bad file descriptor (simulated)")
        if ino.cache is not None:
            ino.durable = bytes(ino.cache)
            ino.cache = None
            ino.cache_mode = "trunc"
            self.world.faults.hit("disk_fsync")
        self.world.log.add("disk_fsync", fd)

    def rename(self, src: str, dst: str) -> None:
        """atomic in the namespace; the data of the moved inode is only as durable as it was (a rename without
        fsync can survive a crash with torn content - the classic checkpoint bug)"""
        self.world.seam("disk_rename")
        if self.dead:
            raise SimCrash("process is dead")
        src, dst = str(src), str(dst)
        if src not in self.inodes or self.inodes[src].visible() is None:
            raise FileNotFoundError(errno.ENOENT, "No such file (simulated)", src)
        self.inodes[dst] = self.inodes.pop(src)
        self.world.log.add("disk_rename", [src, dst])

    def remove(self, path: str) -> None:
        self.world.seam("disk_remove")
        path = str(path)
        if path not in self.inodes or self.inodes[path].visible() is None:
            raise FileNotFoundError(errno.ENOENT, "No such file (simulated)", path)
        del self.inodes[path]
        self.world.log.add("disk_remove", path)

    def exists(self, path: str) -> bool:
        ino = self.inodes.get(str(path))
        return ino is not None and ino.visible() is not None

    def getsize(self, path: str) -> int:
        c = self.content(str(path))
        if c is None:
            raise FileNotFoundError(errno.ENOENT, "No such file (simulated)", path)
        return len(c)

    def open(self, path: str, mode: str = "r", buffering: int = -1, *a: Any, **kw: Any) -> Any:
        w = self.world
        w.seam("disk_open")
        self.open_calls += 1
        path = str(path)
        if "b" not in mode:
            raise ValueError("SimDisk only supports binary mode")
        unbuffered = buffering == 0
        if "w" in mode or "a" in mode or "x" in mode or ("r" in mode and "+" in mode):
            if "x" in mode and self.exists(path):
                raise FileExistsError(errno.EEXIST, "File exists (simulated)", path)
            if "r" in mode and not self.exists(path):
                w.log.add("disk_open", [path, mode, "ENOENT"])
                raise FileNotFoundError(errno.ENOENT, "No such file (simulated)", path)
            ino = self.inodes.setdefault(path, _Inode())
            pos = 0
            if "a" in mode or "r" in mode:
                if ino.cache is None:
                    ino.cache_mode = "inplace"  # old blocks stay allocated and are overwritten in place
                ino.cache = bytearray(ino.visible() or b"")
                pos = len(ino.cache) if "a" in mode else 0
            else:
                ino.cache = bytearray()  # O_TRUNC happens at open, in the cache; the old blocks are freed
                ino.cache_mode = "trunc"
            w.log.add("disk_open", [path, mode])
            raw = _SimRawWriter(self, path, ino, pos, readable="+" in mode)
            if unbuffered:
                return raw
            if "+" in mode:
                return io.BufferedRandom(raw, buffer_size=self.buffer_size)
            return _SimWriteFile(self, path, ino, io.BufferedWriter(raw, buffer_size=self.buffer_size))
        if "r" in mode:
            ino = self.inodes.get(path)
            data = ino.visible() if ino is not None else None
            if data is None:
                w.log.add("disk_open", [path, "rb", "ENOENT"])
                raise FileNotFoundError(errno.ENOENT, "No such file (simulated)", path)
            w.log.add("disk_open", [path, "rb", len(data)])
            raw_r = _SimRawReader(self, path, data)
            if unbuffered:
                return raw_r
            return io.BufferedReader(raw_r, buffer_size=self.buffer_size)
        raise ValueError(f"SimDisk: unsupported mode {mode}")

    def sync(self) -> None:
        for ino in self.inodes.values():
            if ino.cache is not None:
                ino.durable = bytes(ino.cache)
                ino.cache = None
        self.world.log.add("disk_sync")

    def crash(self, rng: random.Random) -> dict[str, str]:
        """Process death. Per dirty inode one of:
          complete  - everything cached reached the disk;
          lost      - nothing did (the old durable content, if any, is intact);
          truncated - a strict or full prefix of the cached stream (sequential writes after O_TRUNC land in order);
          torn      - only for files overwritten IN PLACE ('r+b'/'ab'): a block-wise mix of old and new content.
        A file that was truncated at open and written sequentially never comes back with old blocks in it (they were
        freed), so the unchanged save() leaves old, new, or a prefix of new - never a same-length hybrid."""
        outcome: dict[str, str] = {}
        for path in sorted(self.inodes):
            ino = self.inodes[path]
            if ino.cache is None:
                outcome[path] = "clean"
                continue
            cache = bytes(ino.cache)
            old = ino.durable
            modes = ["complete", "lost", "truncated", "truncated"] if ino.cache_mode == "trunc" else ["complete", "lost", "torn", "torn"]
            mode = rng.choice(modes)
            if mode == "complete":
                new: Optional[bytes] = cache
            elif mode == "lost":
                new = old
            elif mode == "truncated":
                new = cache[: rng.randrange(0, len(cache) + 1)]
            else:
                base = bytearray(old or b"")
                length = rng.choice([len(cache), len(base)])
                buf = bytearray(length)
                buf[: min(length, len(base))] = base[: min(length, len(base))]
                for off in range(0, min(length, len(cache)), self.BLOCK):
                    if rng.random() < 0.5:
                        end = min(off + self.BLOCK, length, len(cache))
                        buf[off:end] = cache[off:end]
                new = bytes(buf)
            ino.durable = new
            ino.cache = None
            ino.cache_mode = "trunc"
            outcome[path] = mode
            self.world.faults.hit("disk_crash_" + mode)
        self.world.log.add("disk_crash", outcome)
        self.dead = False  # the next process starts with a working disk
        return outcome

    def content(self, path: str) -> Optional[bytes]:
        ino = self.inodes.get(path)
        return None if ino is None else ino.visible()


class _SimOSPath:
    def __init__(self, disk: "SimDisk"):
        import os as _os

        self._disk = disk
        self._real = _os.path

    def exists(self, p: Any) -> bool:
        return self._disk.exists(p)

    isfile = exists

    def getsize(self, p: Any) -> int:
        return self._disk.getsize(p)

    def __getattr__(self, name: str) -> Any:  # join, basename, splitext, ... are pure functions
        return getattr(self._real, name)


class SimOS:
    """Stands in for `os` inside ginjax.ml.training if (and only if) that module imports it, so that a checkpoint
    routine written with temp files, rename/replace, fsync or remove runs against the same simulated disk."""

    def __init__(self, disk: "SimDisk"):
        import os as _os

        self._disk = disk
        self._real = _os
        self.path = _SimOSPath(disk)

    def rename(self, src: Any, dst: Any) -> None:
        self._disk.rename(src, dst)

    replace = rename

    def remove(self, p: Any) -> None:
        self._disk.remove(p)

    unlink = remove

    def fsync(self, fd: int) -> None:
        self._disk.fsync(fd)

    def makedirs(self, *a: Any, **kw: Any) -> None:
        return None

    mkdir = makedirs

    def __getattr__(self, name: str) -> Any:  # getpid, environ, sep, ...
        return getattr(self._real, name)


# --------------------------------------------------------------------------- wandb
class _Cfg:
    def __init__(self, parent: "SimWandb"):
        self.parent = parent

    def update(self, d: Any) -> None:
        self.parent.world.seam("wandb_config")
        self.parent.configs.append(d)


class SimWandb:
    def __init__(self, world: "World"):
        self.world = world
        self.logs: list[Any] = []
        self.configs: list[Any] = []
        self.fail_at: dict[int, str] = {}
        self.calls = 0
        self.config = _Cfg(self)

    def log(self, d: Any) -> None:
        self.world.seam("wandb_log")
        self.calls += 1
        f = self.fail_at.get(self.calls)
        if f == "raise":
            self.world.faults.hit("net_error")
            raise ConnectionError("wandb unreachable (simulated)")
        if f == "slow":
            self.world.faults.hit("net_slow")
            self.world.clock.now += 600.0
            self.world.clock.covered += 600.0
        self.logs.append({k: float(v) for k, v in d.items()})
        self.world.log.add("wandb_log", sorted(d.keys()))

    def init(self, *a: Any, **kw: Any) -> None:
        self.world.seam("wandb_init")

    def finish(self, *a: Any, **kw: Any) -> None:
        self.world.seam("wandb_finish")

    def Settings(self, *a: Any, **kw: Any) -> Any:  # noqa: N802
        return None


# --------------------------------------------------------------------------- world
class World:
    def __init__(self, seed: int, rng: Optional[random.Random] = None):
        self.seed = seed
        self.rng = rng or random.Random(seed)
        self.log = EventLog(seed)
        self.faults = FaultCounts()
        self.seam_calls = 0
        self.seam_kinds: dict[str, int] = {}
        self.crash_plan: dict[int, str] = {}
        self.seam_cap = 200_000
        self.clock = SimClock(self)
        self.disk = SimDisk(self)
        self.wandb = SimWandb(self)
        self.batches: list[Any] = []  # records of get_batches calls
        self.batch_hook: Optional[Callable[..., None]] = None
        self._saved: dict[str, Any] = {}
        self._installed = False

    # every seam call passes through here; this is where crashes are injected
    def seam(self, kind: str) -> None:
        self.seam_calls += 1
        self.seam_kinds[kind] = self.seam_kinds.get(kind, 0) + 1
        if self.seam_calls in self.crash_plan:
            self.faults.hit("crash@" + kind)
            self.log.add("crash", [self.seam_calls, kind])
            raise SimCrash(f"crash at seam call {self.seam_calls} ({kind})")
        if self.seam_calls > self.seam_cap:
            raise StepBudgetExceeded(f"seam cap {self.seam_cap} exceeded")

    def install(self) -> None:
        import ginjax.ml.training as training

        assert not self._installed
        self._saved = {
            "time": training.time,
            "wandb": training.wandb,
            "get_batches": training.get_batches,
            "has_open": "open" in training.__dict__,
        }
        real_get_batches = training.get_batches
        world = self

        def get_batches(multi_images: Any, batch_size: int, rand_key: Any, devices: Any = None) -> Any:
            world.seam("get_batches")
            out = real_get_batches(multi_images, batch_size, rand_key, devices)
            if world.batch_hook is not None:
                world.batch_hook(multi_images, batch_size, rand_key, devices, out)
            return out

        get_batches.__wrapped__ = real_get_batches  # type: ignore[attr-defined]
        training.time = self.clock  # type: ignore[assignment]
        training.wandb = self.wandb  # type: ignore[assignment]
        training.open = self.disk.open  # type: ignore[attr-defined]
        training.get_batches = get_batches
        if "os" in training.__dict__:  # only if the module under test uses os at all
            self._saved["os"] = training.os
            training.os = SimOS(self.disk)  # type: ignore[attr-defined]
        self._installed = True

    def uninstall(self) -> None:
        import ginjax.ml.training as training

        if not self._installed:
            return
        training.time = self._saved["time"]
        training.wandb = self._saved["wandb"]
        training.get_batches = self._saved["get_batches"]
        if not self._saved["has_open"] and "open" in training.__dict__:
            del training.open  # type: ignore[attr-defined]
        if "os" in self._saved:
            training.os = self._saved["os"]  # type: ignore[attr-defined]
        self._installed = False

    def __enter__(self) -> "World":
        self.install()
        return self

    def __exit__(self, *exc: Any) -> None:
        self.uninstall()
