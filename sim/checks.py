"""Registry: property id -> batches per tier. No jax import here."""
from __future__ import annotations

REAL_STUB = {
    "real": [
        "all of ginjax imported from <repo>/src as it is on disk when the check starts",
        "equinox filter_pmap / filter_value_and_grad / (de)serialisation",
        "optax optimisers (real-model batches)",
        "JAX jit / vmap / pmap on 4 forced XLA host devices",
        "CPython io.BufferedWriter/BufferedReader, numpy save/load",
    ],
    "stub": [
        "wall clock (SimClock replaces ginjax.ml.training.time)",
        "file system below open() (SimDisk replaces ginjax.ml.training.open)",
        "wandb (SimWandb replaces ginjax.ml.training.wandb)",
        "training data (synthetic)",
    ],
}


def _c19(tier: str) -> list[dict]:
    q = tier == "quick"
    return [
        {"engine": "e2_stop", "label": "direct", "profile": {"mode": "direct"}, "n_runs": 60000 if q else 1500000, "budget_s": 60 if q else 600},
        # complete enumeration: all histories of length 1..6 over 4 ordered letters x 16 patience configurations x 3 representations
        {"engine": "e2_stop", "label": "sweep_len6_exhaustive", "profile": {"mode": "sweep"}, "n_runs": 262080, "budget_s": 120 if q else 600, "exact": True},
        {"engine": "e2_stop", "label": "loop", "profile": {"mode": "loop"}, "n_runs": 6000 if q else 120000, "budget_s": 100 if q else 900},
        {"engine": "e2_stop", "label": "real", "profile": {"mode": "real"}, "n_runs": 160 if q else 3000, "budget_s": 60 if q else 600},
    ]


def _e1(label: str, weights: dict, nq: int, nt: int, extra: dict | None = None):
    def f(tier: str) -> list[dict]:
        q = tier == "quick"
        prof = {"weights": weights}
        prof.update(extra or {})
        return [{"engine": "e1_container", "label": label, "profile": prof, "n_runs": nq if q else nt, "budget_s": 150 if q else 1500}]

    return f


E1_RULE = (
    "seeded histories of 8-40 public-API operations on a register file of real MultiImage objects (constructors in drawn insertion "
    "orders, append, from_images, concat/concat_inverse, expand/combine/merge, reshape_pmap, vector / scalar-channel / image round trips, "
    "copy, subset, + - * / ==, losses, group action, norm, pooling, component selection) interleaved with transport events "
    "(pytree round trip, jit, vmap, copy, re-insertion in a drawn permutation); d in 1..3, non-square extents, 0-3 leading axes; "
    "after every step every live register is compared bit-exactly, by type, with an unordered numpy reference; "
    "distinct = hash of the sequence of operation/transport kinds; non-trivial = the history contains at least one transport event "
    "or one binary operation whose operands are stored in different orders"
)

# the two configurations recorded in known_findings.json (networks whose own bookkeeping is ill-typed when the bank
# lacks a filter type); every C20 run re-executes them so that the findings stay visible and stay the same
_BASE = {"equivariant": True, "depth": 1, "use_bias": "auto", "activation": "gelu", "use_group_norm": False, "preact": False, "kernel_size": 3,
         "num_blocks": 1, "num_conv": 1, "num_downsamples": 1, "torus": True}
ILL_TYPED_CFGS = [
    {**_BASE, "cls": "ResNet", "D": 3, "in_sig": [[0, 0, 1]], "out_sig": [[1, 0, 1], [0, 1, 1], [1, 1, 1]], "spatial": [3, 3, 3]},
    {**_BASE, "cls": "UNet", "D": 3, "in_sig": [[1, 0, 3]], "out_sig": [[1, 1, 2], [0, 0, 1], [0, 1, 3]], "depth": 2, "use_bias": False, "torus": False, "spatial": [4, 4, 4]},
]

CHECKS: dict[str, dict] = {
    "C09": {
        "batches": lambda tier: [
            {"engine": "e2_train", "label": "train_equiv", "profile": {"mode": "train_equiv"}, "n_runs": 160 if tier == "quick" else 4000, "budget_s": 230 if tier == "quick" else 2400},
        ],
        "rule": (
            "seeded training life-cycles of the real ml.train on real equivariant models (ConvBlock/ResNet/UNet/DilResNet, and in a tenth of the runs a conventional network inside GroupAverage with inference=True; unsorted signatures with pseudo-types; all bias modes; "
            "norm, activation, pre-activation, torus flag; d in {2,3}) with real optax optimisers (sgd, adam, adamw+decay, large learning rates), 1-3 segments of 1-20 epochs, "
            "1-2 devices, smse / per-timestep / normalised loss; faults: crash at a drawn seam call (clock, optimiser update, get_batches, wandb, checkpoint write), torn checkpoints, "
            "crash inside the k-th raw write of a checkpoint, restart with ml.load (short reads) into a fresh twin or from scratch, optimiser/device/batch change across restarts, "
            "wandb stalls and errors, disk full, clock jumps. Invariants after every segment: equivariance for every g in B_d and cyclic shifts along toroidal axes on three probes "
            "(boundary flags travel with their axes; conditioning-aware tolerance + persistence), filter bank = initial x common scalar, non-vacuity. "
            "distinct = hash of (class, per-segment optimiser/devices/checkpointing, crash/restart outcomes); non-trivial = some trainable leaf moved by more than 1e-3"
        ),
        "components": REAL_STUB,
        "assumptions": ["float tolerance 2e-3 relative with a three-probe persistence rule; runs that become non-finite are discarded and counted"],
        "level_text": "Seeded search over training histories (optimiser, steps, devices, batch schedule, crash/restart points) from swarm-sampled equivariant architectures; equivariance for the whole group and the filter-bank rescaling invariant are re-checked after every segment. Sampling, not proof.",
        "level_note": "Trusted: JAX/equinox/optax; float oracle with tolerance + persistence; each architecture costs 3-30 s of XLA compilation so a quick run covers on the order of a hundred life-cycles.",
        "technique": "deterministic simulation of the training loop with crash/restart, torn-checkpoint, device-schedule, network and clock faults on real models and optimisers; equivariance and filter-bank invariants after every segment",
        "design_ref": "DESIGN.md section 3 (C09)",
    },
    "C12": {
        "batches": _e1("arith", {"arith": 3}, 600, 24000),
        "rule": E1_RULE,
        "level_text": "Seeded search over operation-and-transport histories of real MultiImage objects against an unordered reference model, compared bit-exactly by type after every step; failing histories are delta-debugged to a few operations and replayed from a file. Sampling, not proof.",
        "level_note": "Trusted: the numpy reference semantics in sim/engines/e1_container.py (about 250 lines), JAX as installed. Values are small integers so float32 arithmetic is exact.",
        "technique": "deterministic simulation of operand storage histories with transport faults (jit/vmap/pytree reordering, re-insertion), seeded history search against an unordered reference model, ddmin + replay",
        "design_ref": "DESIGN.md section 3 (C12)",
        "components": REAL_STUB,
        "assumptions": ["values are small integers in float32 and scalars are powers of two, so the oracle is bit-exact"],
    },
    "C13": {
        "batches": lambda tier: _e1("relayout", {"relayout": 3}, 500, 20000)(tier) + [
            {"engine": "e4_lifecycle", "label": "serialise", "profile": {"mode": "serialise"}, "n_runs": 160 if tier == "quick" else 4000, "budget_s": 110 if tier == "quick" else 1200},
            {"engine": "e4_lifecycle", "label": "lifecycle", "profile": {"mode": "lifecycle"}, "n_runs": 64 if tier == "quick" else 2000, "budget_s": 80 if tier == "quick" else 900},
        ],
        "rule": E1_RULE + (
            " | batches serialise/lifecycle (E4): model drawn from the constructor space (LayerNorm, VectorNeuronNonlinear, GroupAverage, ModelWrapper, Climate1D, "
            "ConvContract, ConvBlock, ResNet, DilResNet, UNet), every kind of leaf moved first (optimiser-like update of arrays, common rescaling of the filter bank, "
            "python-float leaves x100, inference flag), then ml.save -> ml.load into a twin built with another key through SimDisk: short writes/reads, ENOSPC/EIO, "
            "crash after save or inside the k-th raw write, same path re-used with write-back in between; clauses: loaded leaves and outputs bit-equal after a "
            "completed save; after a crash 'old or new, never garbage'; distinct = hash of the event-kind sequence incl. fault kinds"
        ),
        "level_text": "Seeded search over operation-and-transport histories of real MultiImage objects against an unordered reference model, compared bit-exactly by type after every step; failing histories are delta-debugged to a few operations and replayed from a file. Sampling, not proof.",
        "level_note": "Trusted: the numpy reference semantics in sim/engines/e1_container.py (about 250 lines), JAX as installed. Values are small integers so float32 arithmetic is exact.",
        "technique": "deterministic simulation of re-layout chains with transport faults, seeded history search against an unordered reference model; save/load through a fault-injecting simulated disk (E4, when registered)",
        "design_ref": "DESIGN.md section 3 (C13)",
        "components": REAL_STUB,
        "assumptions": ["values are small integers in float32, so the oracle is bit-exact"],
    },
    "C14": {
        "batches": lambda tier: _e1("per_image", {"obs": 4}, 400, 16000)(tier) + [
            {"engine": "e2_train", "label": "crosstalk", "profile": {"mode": "crosstalk"}, "n_runs": 96 if tier == "quick" else 3000, "budget_s": 150 if tier == "quick" else 1500},
        ],
        "rule": E1_RULE + (
            " | batch crosstalk (E2-real): a perturbed real model (equivariant and conventional; ConvBlock/ResNet/UNet/DilResNet; group norm) evaluated on one data "
            "set through the real map_plus_loss_in_batches under 2-3 drawn schedules (key|None, batch size, 1/2/4 devices); every delivered sample is attributed through "
            "the recording get_batches seam and its prediction compared with the model applied to that sample alone (conditioning-aware tolerance, persistence); "
            "without a key row r must be sample r; garbage replacement of the other entries of a vmapped batch; GroupNorm channel-group independence for groups>1"
        ),
        "level_text": "Seeded search over operation-and-transport histories of real MultiImage objects against an unordered reference model, compared bit-exactly by type after every step; failing histories are delta-debugged to a few operations and replayed from a file. Sampling, not proof.",
        "level_note": "Trusted: the numpy reference semantics in sim/engines/e1_container.py (about 250 lines), JAX as installed. Values are small integers so float32 arithmetic is exact.",
        "technique": "deterministic simulation: leading-axis layouts reached by operation histories, per-entry comparison with the single-image operation; batch-schedule half via the training-loop world (when registered)",
        "design_ref": "DESIGN.md section 3 (C14)",
        "components": REAL_STUB,
        "assumptions": ["the per-image reference is the library's own single-image operation applied entry by entry"],
    },
    "C20": {
        "batches": lambda tier: [
            {"engine": "e4_lifecycle", "label": "lifecycle", "profile": {"mode": "lifecycle"}, "n_runs": 320 if tier == "quick" else 8000, "budget_s": 200 if tier == "quick" else 1800},
            {"engine": "e4_lifecycle", "label": "wrappers", "profile": {"mode": "wrapper"}, "n_runs": 480 if tier == "quick" else 20000, "budget_s": 60 if tier == "quick" else 600},
            {"engine": "e4_lifecycle", "label": "ill_typed_under_missing_filters", "profile": {"mode": "lifecycle", "fixed_cfgs": ILL_TYPED_CFGS}, "n_runs": 16, "budget_s": 120},
        ],
        "rule": (
            "seeded (model class in ConvContract/ConvBlock/ResNet/DilResNet/UNet, equivariant flag, unsorted input/output signatures incl. pseudo-types and unequal channels, "
            "depth, convs, norm, all five bias modes, activation, pre-activation, d in {2,3}, torus flag, extents compatible with pooling) x a life-cycle history of 3-8 events "
            "(tree_map identity, inference_mode on/off, optimiser update, save->load into a twin through the fault-injecting SimDisk, filter_jit call, transported input); "
            "after every event the model is called directly and types, channels, type order, spatial shape, D and flags are compared with the requested signature restricted to "
            "the types reachable through the bank (computed independently from the bank's key set). Batch wrappers: ModelWrapper / GroupAverage / Climate1D around an identity network "
            "(integer data, unsorted signatures, extents that coincide with the channel count, both dimensions in one process): the output must equal the input exactly by type "
            "after every event. distinct = hash of the event-kind sequence incl. disk-fault kinds; "
            "non-trivial = at least one life-cycle event was executed"
        ),
        "components": REAL_STUB,
        "assumptions": ["configurations whose own residual additions would be ill-typed for the bank are skipped and counted", "values returned by a JAX transformation (filter_jit) are checked for types/channels/shape only: their order is JAX's sorted order"],
        "level_text": "Seeded search over constructor settings and model life-cycle histories; after every event the real model is called and its output signature, order, shape and flags are compared with the request. Sampling, not proof; the deciding content is the life-cycle history, the constructor space is swarm-sampled.",
        "level_note": "Trusted: the reachability oracle (modelzoo.expected_signature, 50 lines), SimDisk. Every architecture costs seconds of XLA compilation, so a quick run covers a few hundred life-cycles.",
        "technique": "deterministic simulation of model life-cycle histories (pytree boundary crossings, optimiser updates, checkpoint/restore through a fault-injecting simulated disk) x swarm-sampled constructor knobs, conformance oracle after every event",
        "design_ref": "DESIGN.md section 3 (C20)",
    },
    "C16": {
        "batches": lambda tier: [{"engine": "e3_rollout", "label": "rollout", "profile": {}, "n_runs": 1500 if tier == "quick" else 60000, "budget_s": 150 if tier == "quick" else 1500}],
        "rule": (
            "seeded rollouts: n in 1..8 steps, past 1..4, 1-3 types (dynamic only / dynamic+constant / constant only, unsorted order, 1-3 channels), "
            "d in {2,3}; model from an exact history-sensitive family (distinct integer window weights, constants, cross-type layout-position term, mod 257) "
            "handed over eagerly / through filter_jit (sorted output) / emitting blocks in reversed or shuffled order; input crossing jit / pytree / re-insertion; "
            "whole rollout plain / under jax.vmap / under filter_jit; aux_data counter threaded. Oracle: reference sliding window of Python lists, bit-exact, "
            "per step input (eager) and final output per type, channel and step. distinct = hash of (model transport, outer transform, input transport, past, n, aux, "
            "per-type dynamic/constant pattern); non-trivial = at least one transport or the aux counter is active"
        ),
        "components": {"real": ["ml.autoregressive_map", "ml.autoregressive_step", "MultiImage.concat/concat_inverse/expand/combine_axes", "jax.vmap / eqx.filter_jit"], "stub": ["the model (exact integer window map family)"]},
        "assumptions": ["model outputs stay below 2^24 so float32 arithmetic is exact"],
        "level_text": "Seeded search over rollout configurations and transports; the real autoregressive_map/step are compared bit-exactly with a reference sliding window for a model family that is injective in window order. Sampling, not proof.",
        "level_note": "Trusted: the list-based reference window (RefWindow, 50 lines) and the model family's numpy twin.",
        "technique": "deterministic simulation of the n-step feedback loop with transport faults on model output/input and outer jit/vmap, seeded search against a reference sliding window",
        "design_ref": "DESIGN.md section 3 (C16)",
    },
    "C17": {
        "batches": lambda tier: [
            {"engine": "e2_batch", "label": "direct", "profile": {"mode": "direct"}, "n_runs": 2500 if tier == "quick" else 100000, "budget_s": 100 if tier == "quick" else 1200},
            {"engine": "e2_batch", "label": "train", "profile": {"mode": "train"}, "n_runs": 500 if tier == "quick" else 20000, "budget_s": 100 if tier == "quick" else 1200},
        ],
        "rule": (
            "seeded (L, B, key|None, device count in {1,2,4} dividing B, 1-3 co-batched multi-images with different type sets/orders, operands optionally "
            "crossing jit/pytree first) for direct calls; for the train batch every get_batches call made by the real ml.train / map_loss_in_batches over 1-6 epochs "
            "is recorded at the seam, a seam around train_step records the samples actually consumed per epoch (and injects a transient step error), the in-pmap loss sum|x_index - y_index| "
            "must be 0; in-place change of the data set followed by re-batching; threshold-sized blocks. Samples carry 64*i+8*type+channel so rows are attributed exactly. "
            "distinct = hash of (mode, devices, divisibility, L, B, number of multi-images, key, transports); non-trivial = more than one device, or L not a multiple of B, or a shuffling key"
        ),
        "components": REAL_STUB,
        "assumptions": ["pairing inside pmap is observed through a loss that recovers the sample index from the first channel of the first type"],
        "level_text": "Seeded search over data-set sizes, batch sizes, keys, device lists and co-batched signatures; every call of the real get_batches (direct and as made by the real training loop over several epochs) is checked exactly against the partition/alignment oracle. Sampling, not proof.",
        "level_note": "Trusted: the index-recovery oracle (check_call, 60 lines). The in-train model is a stub with one parameter; train, train_step, pmap, map_loss_in_batches, get_batches are real.",
        "technique": "deterministic simulation of the training loop's batching schedule (key chain, device list, epoch sequence) with a recording seam around get_batches, seeded search against an exact partition oracle",
        "design_ref": "DESIGN.md section 3 (C17)",
    },
    "C18": {
        "batches": _e1("losses", {"loss": 5}, 600, 24000),
        "rule": E1_RULE,
        "level_text": "Seeded search over operation-and-transport histories of real MultiImage objects against an unordered reference model, compared bit-exactly by type after every step; failing histories are delta-debugged to a few operations and replayed from a file. Sampling, not proof.",
        "level_note": "Trusted: the numpy reference semantics in sim/engines/e1_container.py (about 250 lines), JAX as installed. Values are small integers so float32 arithmetic is exact.",
        "technique": "deterministic simulation of prediction/target storage histories with transport faults, seeded search against a float64 reference from the statement, group element applied to both arguments",
        "design_ref": "DESIGN.md section 3 (C18)",
        "components": REAL_STUB,
        "assumptions": ["float64 reference from the statement; relative tolerance 1e-5 (exact for the integer data used)"],
    },
    "C19": {
        "batches": _c19,
        "level_text": "Seeded search over loss histories, stop-condition configurations, scalar representations, batch/device schedules and clock faults; the real ml.train loop and the real stop-condition classes run inside the simulated world and are compared decision by decision with a reference patience automaton, with bounded liveness (the loop must stop within 3 epochs of the reference). Sampling, not proof.",
        "level_note": "Trusted: the 15-line reference automaton, JAX/equinox/optax as installed. Loss alphabets are dyadic so float32 and float64 comparisons agree exactly. In the scripted loop batch the model, optimiser and loss are stubs (step counter, increment, table lookup); train/train_step/get_batches/evaluate/pmap and the stop conditions are real.",
        "technique": "deterministic simulation of the training loop with fault injection (scalar-type erasure at the pmap boundary, clock jumps/stalls, device schedules), seeded history search against a reference automaton, bounded-liveness seam",
        "design_ref": "DESIGN.md section 3 (C19)",
        "rule": (
            "batch sweep_len6_exhaustive: complete enumeration of all 5460 loss histories of length 1..6 over a 4-letter ordered alphabet x 16 patience "
            "configurations (TrainLoss/ValLoss, patience 0-3, min_delta 0 / 0.125) x 3 scalar representations (262080 direct histories); other batches: "
            "seeded loss histories (<=24 epochs, dyadic alphabet of 2-6 letters plus NaN/inf in a quarter of runs) x "
            "condition (TrainLoss/ValLoss/EpochStop, patience 0-3, min_delta 0/0.125/1, verbose) x scalar representation "
            "(float, np.float32, np.float64, 0-d jax array, pmap-mean) x schedule (batches/epoch, 1/2/4 devices) x clock faults; "
            "distinct = hash of (mode, condition config, set of reference-automaton states visited, representations); "
            "non-trivial = at least two stop decisions were compared with the reference automaton"
        ),
        "components": {
            **REAL_STUB,
            "stub_scripted_batches": "in the 'loop' batch the model is a step counter, the optimiser an increment and the loss a table lookup; ml.train, train_step, get_batches, map_loss_in_batches, evaluate, filter_pmap and the stop-condition classes are real",
        },
        "assumptions": [
            "loss values are dyadic rationals n/64 in [0,4] (plus NaN, +inf) so float32/float64 comparisons agree exactly with the reference",
            "batches per epoch restricted to 1, 2, 4 in the scripted loop so epoch means are exact",
        ],
    },
}
