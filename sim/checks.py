"""Registry: property id -> batches per tier. No jax import here."""
from __future__ import annotations

REAL_STUB = {
    "real": [
        "all of ginjax imported from <repo>/src as it is on disk when the check starts",
        "equinox filter_pmap / filter_value_and_grad / (de)serialisation",
        "optax optimisers (real-model batches)",
        "JAX jit / vmap / pmap on 4 forced XLA host devices",
        "CPython io.BufferedWriter/BufferedReader, numpy save/load",
    ],
    "stub": [
        "wall clock (SimClock replaces ginjax.ml.training.time)",
        "file system below open() (SimDisk replaces ginjax.ml.training.open)",
        "wandb (SimWandb replaces ginjax.ml.training.wandb)",
        "training data (synthetic)",
    ],
}


def _c19(tier: str) -> list[dict]:
    q = tier == "quick"
    return [
        {"engine": "e2_stop", "label": "direct", "profile": {"mode": "direct"}, "n_runs": 60000 if q else 1500000, "budget_s": 60 if q else 600},
        {"engine": "e2_stop", "label": "loop", "profile": {"mode": "loop"}, "n_runs": 6000 if q else 120000, "budget_s": 100 if q else 900},
        {"engine": "e2_stop", "label": "real", "profile": {"mode": "real"}, "n_runs": 160 if q else 3000, "budget_s": 60 if q else 600},
    ]


def _e1(label: str, weights: dict, nq: int, nt: int, extra: dict | None = None):
    def f(tier: str) -> list[dict]:
        q = tier == "quick"
        prof = {"weights": weights}
        prof.update(extra or {})
        return [{"engine": "e1_container", "label": label, "profile": prof, "n_runs": nq if q else nt, "budget_s": 150 if q else 1500}]

    return f


E1_RULE = (
    "seeded histories of 8-40 public-API operations on a register file of real MultiImage objects (constructors in drawn insertion "
    "orders, append, from_images, concat/concat_inverse, expand/combine/merge, reshape_pmap, vector / scalar-channel / image round trips, "
    "copy, subset, + - * / ==, losses, group action, norm, pooling, component selection) interleaved with transport events "
    "(pytree round trip, jit, vmap, copy, re-insertion in a drawn permutation); d in 1..3, non-square extents, 0-3 leading axes; "
    "after every step every live register is compared bit-exactly, by type, with an unordered numpy reference; "
    "distinct = hash of the sequence of operation/transport kinds; non-trivial = the history contains at least one transport event "
    "or one binary operation whose operands are stored in different orders"
)

CHECKS: dict[str, dict] = {
    "C12": {
        "batches": _e1("arith", {"arith": 3}, 600, 24000),
        "rule": E1_RULE,
        "level_text": "Seeded search over operation-and-transport histories of real MultiImage objects against an unordered reference model, compared bit-exactly by type after every step; failing histories are delta-debugged to a few operations and replayed from a file. Sampling, not proof.",
        "level_note": "Trusted: the numpy reference semantics in sim/engines/e1_container.py (about 250 lines), JAX as installed. Values are small integers so float32 arithmetic is exact.",
        "technique": "deterministic simulation of operand storage histories with transport faults (jit/vmap/pytree reordering, re-insertion), seeded history search against an unordered reference model, ddmin + replay",
        "design_ref": "DESIGN.md section 3 (C12)",
        "components": REAL_STUB,
        "assumptions": ["values are small integers in float32 and scalars are powers of two, so the oracle is bit-exact"],
    },
    "C13": {
        "batches": _e1("relayout", {"relayout": 3}, 600, 24000),
        "rule": E1_RULE,
        "level_text": "Seeded search over operation-and-transport histories of real MultiImage objects against an unordered reference model, compared bit-exactly by type after every step; failing histories are delta-debugged to a few operations and replayed from a file. Sampling, not proof.",
        "level_note": "Trusted: the numpy reference semantics in sim/engines/e1_container.py (about 250 lines), JAX as installed. Values are small integers so float32 arithmetic is exact.",
        "technique": "deterministic simulation of re-layout chains with transport faults, seeded history search against an unordered reference model; save/load through a fault-injecting simulated disk (E4, when registered)",
        "design_ref": "DESIGN.md section 3 (C13)",
        "components": REAL_STUB,
        "assumptions": ["values are small integers in float32, so the oracle is bit-exact"],
    },
    "C14": {
        "batches": _e1("per_image", {"obs": 4}, 500, 20000),
        "rule": E1_RULE,
        "level_text": "Seeded search over operation-and-transport histories of real MultiImage objects against an unordered reference model, compared bit-exactly by type after every step; failing histories are delta-debugged to a few operations and replayed from a file. Sampling, not proof.",
        "level_note": "Trusted: the numpy reference semantics in sim/engines/e1_container.py (about 250 lines), JAX as installed. Values are small integers so float32 arithmetic is exact.",
        "technique": "deterministic simulation: leading-axis layouts reached by operation histories, per-entry comparison with the single-image operation; batch-schedule half via the training-loop world (when registered)",
        "design_ref": "DESIGN.md section 3 (C14)",
        "components": REAL_STUB,
        "assumptions": ["the per-image reference is the library's own single-image operation applied entry by entry"],
    },
    "C18": {
        "batches": _e1("losses", {"loss": 5}, 600, 24000),
        "rule": E1_RULE,
        "level_text": "Seeded search over operation-and-transport histories of real MultiImage objects against an unordered reference model, compared bit-exactly by type after every step; failing histories are delta-debugged to a few operations and replayed from a file. Sampling, not proof.",
        "level_note": "Trusted: the numpy reference semantics in sim/engines/e1_container.py (about 250 lines), JAX as installed. Values are small integers so float32 arithmetic is exact.",
        "technique": "deterministic simulation of prediction/target storage histories with transport faults, seeded search against a float64 reference from the statement, group element applied to both arguments",
        "design_ref": "DESIGN.md section 3 (C18)",
        "components": REAL_STUB,
        "assumptions": ["float64 reference from the statement; relative tolerance 1e-5 (exact for the integer data used)"],
    },
    "C19": {
        "batches": _c19,
        "level_text": "Seeded search over loss histories, stop-condition configurations, scalar representations, batch/device schedules and clock faults; the real ml.train loop and the real stop-condition classes run inside the simulated world and are compared decision by decision with a reference patience automaton, with bounded liveness (the loop must stop within 3 epochs of the reference). Sampling, not proof.",
        "level_note": "Trusted: the 15-line reference automaton, JAX/equinox/optax as installed. Loss alphabets are dyadic so float32 and float64 comparisons agree exactly. In the scripted loop batch the model, optimiser and loss are stubs (step counter, increment, table lookup); train/train_step/get_batches/evaluate/pmap and the stop conditions are real.",
        "technique": "deterministic simulation of the training loop with fault injection (scalar-type erasure at the pmap boundary, clock jumps/stalls, device schedules), seeded history search against a reference automaton, bounded-liveness seam",
        "design_ref": "DESIGN.md section 3 (C19)",
        "rule": (
            "seeded loss histories (<=24 epochs, dyadic alphabet of 2-6 letters plus NaN/inf in a quarter of runs) x "
            "condition (TrainLoss/ValLoss/EpochStop, patience 0-3, min_delta 0/0.125/1, verbose) x scalar representation "
            "(float, np.float32, np.float64, 0-d jax array, pmap-mean) x schedule (batches/epoch, 1/2/4 devices) x clock faults; "
            "distinct = hash of (mode, condition config, set of reference-automaton states visited, representations); "
            "non-trivial = at least two stop decisions were compared with the reference automaton"
        ),
        "components": {
            **REAL_STUB,
            "stub_scripted_batches": "in the 'loop' batch the model is a step counter, the optimiser an increment and the loss a table lookup; ml.train, train_step, get_batches, map_loss_in_batches, evaluate, filter_pmap and the stop-condition classes are real",
        },
        "assumptions": [
            "loss values are dyadic rationals n/64 in [0,4] (plus NaN, +inf) so float32/float64 comparisons agree exactly with the reference",
            "batches per epoch restricted to 1, 2, 4 in the scripted loop so epoch means are exact",
        ],
    },
}
