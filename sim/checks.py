"""Registry: property id -> batches per tier. No jax import here."""
from __future__ import annotations

REAL_STUB = {
    "real": [
        "all of ginjax imported from <repo>/src as it is on disk when the check starts",
        "equinox filter_pmap / filter_value_and_grad / (de)serialisation",
        "optax optimisers (real-model batches)",
        "JAX jit / vmap / pmap on 4 forced XLA host devices",
        "CPython io.BufferedWriter/BufferedReader, numpy save/load",
    ],
    "stub": [
        "wall clock (SimClock replaces ginjax.ml.training.time)",
        "file system below open() (SimDisk replaces ginjax.ml.training.open)",
        "wandb (SimWandb replaces ginjax.ml.training.wandb)",
        "training data (synthetic)",
    ],
}


def _c19(tier: str) -> list[dict]:
    q = tier == "quick"
    return [
        {"engine": "e2_stop", "label": "direct", "profile": {"mode": "direct"}, "n_runs": 60000 if q else 1500000, "budget_s": 60 if q else 600},
        {"engine": "e2_stop", "label": "loop", "profile": {"mode": "loop"}, "n_runs": 6000 if q else 120000, "budget_s": 100 if q else 900},
        {"engine": "e2_stop", "label": "real", "profile": {"mode": "real"}, "n_runs": 160 if q else 3000, "budget_s": 60 if q else 600},
    ]


CHECKS: dict[str, dict] = {
    "C19": {
        "batches": _c19,
        "rule": (
            "seeded loss histories (<=24 epochs, dyadic alphabet of 2-6 letters plus NaN/inf in a quarter of runs) x "
            "condition (TrainLoss/ValLoss/EpochStop, patience 0-3, min_delta 0/0.125/1, verbose) x scalar representation "
            "(float, np.float32, np.float64, 0-d jax array, pmap-mean) x schedule (batches/epoch, 1/2/4 devices) x clock faults; "
            "distinct = hash of (mode, condition config, set of reference-automaton states visited, representations); "
            "non-trivial = at least two stop decisions were compared with the reference automaton"
        ),
        "components": {
            **REAL_STUB,
            "stub_scripted_batches": "in the 'loop' batch the model is a step counter, the optimiser an increment and the loss a table lookup; ml.train, train_step, get_batches, map_loss_in_batches, evaluate, filter_pmap and the stop-condition classes are real",
        },
        "assumptions": [
            "loss values are dyadic rationals n/64 in [0,4] (plus NaN, +inf) so float32/float64 comparisons agree exactly with the reference",
            "batches per epoch restricted to 1, 2, 4 in the scripted loop so epoch means are exact",
        ],
    },
}
