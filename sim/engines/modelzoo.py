"""Model construction shared by E4 (life-cycle) and E2-real (training): draws constructor settings,
builds the real ginjax models, computes the requested/reachable output signature independently from
the bank's key set, builds probe inputs."""
from __future__ import annotations

from typing import Any, Optional

import numpy as np
import jax
import jax.numpy as jnp
import equinox as eqx

import ginjax.geometric as geom
import ginjax.ml as ml
import ginjax.models as models

_BANKS: dict = {}


def banks(D: int, big: bool = False) -> dict:
    """invariant filter banks, built once per worker (S9). The small bank (filter orders 0..2) serves
    signatures with tensor order <= 1; the big one (0..4, d=2 only) is built lazily for order-2 types."""
    key = (D, bool(big))
    if key not in _BANKS:
        ops = geom.make_all_operators(D)
        ks = [0, 1, 2, 3, 4] if big else [0, 1, 2]
        _BANKS[key] = {
            "ops": [np.asarray(g) for g in ops],
            "conv": geom.get_invariant_filters([3], ks, [0, 1], D, ops),
            "up": geom.get_invariant_filters([2], ks, [0, 1], D, ops),
        }
    return _BANKS[key]


def needs_big(cfg: dict) -> bool:
    return any(k >= 2 for k, _, _ in cfg.get("in_sig", []) + cfg.get("out_sig", []))


def sig(lst) -> Any:
    return geom.Signature(tuple(((int(k), int(p)), int(c)) for k, p, c in lst))


TYPE_POOL = {2: [(0, 0), (0, 1), (1, 0), (1, 1), (2, 0)], 3: [(0, 0), (1, 0), (0, 1), (1, 1)]}


def gen_sig(rng, D: int, max_k: int, n_max: int = 3, cmax: int = 3) -> list:
    pool = [t for t in TYPE_POOL[D] if t[0] <= max_k]
    n = rng.randint(1, min(n_max, len(pool)))
    types = rng.sample(pool, n)  # unsorted order, pseudo-types included
    return [[k, p, rng.randint(1, cmax)] for k, p in types]


def gen_cfg(rng, classes=None, equivariant: Optional[bool] = None, dims=(2, 2, 2, 3), bias_modes=None, allow_unreachable: bool = True) -> dict:
    cls = rng.choice(classes or ["ConvContract", "ConvBlock", "ConvBlock", "ResNet", "ResNet", "DilResNet", "UNet"])
    D = rng.choice(list(dims))
    if cls in ("ConvContract",):
        eq = True
    elif equivariant is None:
        eq = rng.random() < 0.7
    else:
        eq = equivariant
    norm = rng.random() < 0.5 and cls not in ("ConvContract",)
    max_k = 1 if (norm and eq) or D == 3 else rng.choice([1, 1, 1, 1, 2])
    if cls == "ConvBlock" and not eq:
        in_sig = [[0, 0, rng.randint(1, 3)]]
        out_sig = [[0, 0, rng.randint(1, 3)]]
    else:
        in_sig = gen_sig(rng, D, max_k)
        out_sig = gen_sig(rng, D, max_k)
    if bias_modes is None:
        bias_modes = ["auto", "mean", "scalar", True, False] if eq else ["auto", True, False]
    cfg = {
        "cls": cls,
        "equivariant": eq,
        "D": D,
        "in_sig": in_sig,
        "out_sig": out_sig,
        "depth": rng.randint(1, 2),
        "use_bias": rng.choice(bias_modes),
        "activation": rng.choice(["relu", "gelu", "tanh", "callable_gelu"] + ([None] if cls in ("ConvBlock", "ResNet", "DilResNet") else [])),
        "use_group_norm": norm,
        "preact": rng.random() < 0.5,
        # conventional convolutions take any kernel extent (even ones are padded asymmetrically by "SAME"); the equivariant
        # path takes its extent from the filter bank
        "kernel_size": 3 if eq else rng.choice([3, 3, 3, 1, 2, 4, 5]),
        "num_blocks": 1,
        "num_conv": rng.randint(1, 2),
        "num_downsamples": 1,
        "torus": rng.choice([True, True, False, "mixed"]),
        "bank_order": rng.choice(["sorted", "sorted", "reversed", "rotated"]) if eq else "sorted",
    }
    if cls == "UNet":
        cfg["spatial"] = [4] * D if D == 3 else rng.choice([[4, 4], [4, 8], [8, 4]])
        if cfg["activation"] is None:
            cfg["activation"] = "gelu"
    elif cls == "DilResNet":
        cfg["spatial"] = [4] * D if D == 3 else rng.choice([[4, 4], [6, 4]])
    else:
        cfg["spatial"] = [3] * D if D == 3 else rng.choice([[4, 4], [3, 3], [3, 5], [5, 4]])
    if eq and not allow_unreachable:
        # redraw the signatures until every requested output type is reachable
        for _ in range(50):
            exp = expected_signature(cfg)
            if exp is not None and [t for t, _ in exp] == [(k, p) for k, p, _ in cfg["out_sig"]]:
                break
            cfg["in_sig"] = gen_sig(rng, D, max_k)
            cfg["out_sig"] = gen_sig(rng, D, max_k)
    return cfg


def _act(a):
    if a == "callable_gelu":
        return jax.nn.gelu
    return a


def _reordered(bank, how: str):
    """the same filter bank with its blocks stored in another key order (as get_invariant_filters returns it for
    parities=[1, 0] or descending ks); a model must not care, and the order flips to sorted at the first pytree round trip"""
    if how == "sorted":
        return bank
    items = list(bank.items())
    items = items[::-1] if how == "reversed" else items[1:] + items[:1]
    return geom.MultiImage(dict(items), bank.D, bank.is_torus)


def build_model(cfg: dict, key) -> Any:
    D = cfg["D"]
    b = banks(D, needs_big(cfg)) if cfg["equivariant"] else None
    conv_filters = _reordered(b["conv"], cfg.get("bank_order", "sorted")) if b else None
    up_filters = _reordered(b["up"], cfg.get("bank_order", "sorted")) if b else None
    in_sig, out_sig = sig(cfg["in_sig"]), sig(cfg["out_sig"])
    cls = cfg["cls"]
    if cls == "ConvContract":
        return ml.ConvContract(in_sig, out_sig, conv_filters, use_bias=cfg["use_bias"], key=key)
    if cls == "ConvBlock":
        return models.ConvBlock(
            D, in_sig, out_sig, use_bias=cfg["use_bias"], activation_f=_act(cfg["activation"]), equivariant=cfg["equivariant"],
            conv_filters=conv_filters, kernel_size=cfg["kernel_size"], use_group_norm=cfg["use_group_norm"],
            preactivation_order=False, key=key,
        )
    if cls == "ResNet":
        return models.ResNet(
            D, in_sig, out_sig, depth=cfg["depth"], num_blocks=cfg["num_blocks"], num_conv=cfg["num_conv"], use_bias=cfg["use_bias"],
            activation_f=_act(cfg["activation"]), equivariant=cfg["equivariant"], conv_filters=conv_filters, kernel_size=cfg["kernel_size"],
            use_group_norm=cfg["use_group_norm"], preactivation_order=cfg["preact"], key=key,
        )
    if cls == "DilResNet":
        return models.DilResNet(
            D, in_sig, out_sig, depth=cfg["depth"], num_blocks=cfg["num_blocks"], use_bias=cfg["use_bias"], activation_f=_act(cfg["activation"]),
            equivariant=cfg["equivariant"], conv_filters=conv_filters, kernel_size=cfg["kernel_size"], use_group_norm=cfg["use_group_norm"], key=key,
        )
    if cls == "UNet":
        return models.UNet(
            D, in_sig, out_sig, depth=cfg["depth"], num_downsamples=cfg["num_downsamples"], num_conv=cfg["num_conv"], use_bias=cfg["use_bias"],
            activation_f=_act(cfg["activation"]), equivariant=cfg["equivariant"], conv_filters=conv_filters, upsample_filters=up_filters,
            kernel_size=cfg["kernel_size"], use_group_norm=cfg["use_group_norm"], key=key,
        )
    raise ValueError(cls)


def call_model(model, x):
    out = model(x)
    return out[0] if isinstance(out, tuple) else out


def probe_input(cfg: dict, seed: int, integer: bool = False):
    D = cfg["D"]
    rs = np.random.RandomState(seed % (2**31 - 1))
    data = {}
    for k, p, c in cfg["in_sig"]:
        shape = (c,) + tuple(cfg["spatial"]) + (D,) * k
        v = rs.randint(-4, 5, size=shape).astype(np.float32) if integer else rs.normal(size=shape).astype(np.float32)
        data[(k, p)] = jnp.asarray(v)
    return geom.MultiImage(data, D, torus_flags(cfg))


def torus_flags(cfg: dict):
    """True / False / per-axis mixed flags (first axis periodic, the others not)"""
    t = cfg["torus"]
    if t == "mixed":
        return tuple(i == 0 for i in range(cfg["D"]))
    return t


# --------------------------------------------------------------------------- reachability oracle
def _reach(present: list, targets: list, bank_keys: set) -> list:
    """types of `targets` (in their order) reachable from the present input types through the bank."""
    out = []
    for kt, pt in targets:
        if any(((ks + kt), (ps + pt) % 2) in bank_keys for ks, ps in present):
            out.append((kt, pt))
    return out


def expected_signature(cfg: dict) -> Optional[list]:
    """[((k,p), channels), ...] in the requested order, or None if the architecture's own residual
    additions would be ill-typed for this bank (outside the oracle; counted, not checked)."""
    out_types = [((k, p), c) for k, p, c in cfg["out_sig"]]
    if not cfg["equivariant"]:
        return out_types
    b = banks(cfg["D"], needs_big(cfg))
    conv_keys, up_keys = set(b["conv"].keys()), set(b["up"].keys())
    in_types = [(k, p) for k, p, _ in cfg["in_sig"]]
    tgt = [(k, p) for k, p, _ in cfg["out_sig"]]
    cls = cfg["cls"]
    if cls in ("ConvContract", "ConvBlock"):
        r = _reach(in_types, tgt, conv_keys)
        return [(t, c) for t, c in out_types if t in r]
    mid = list({t for t in in_types} | {t for t in tgt})
    if cls in ("ResNet", "DilResNet"):
        s = _reach(in_types, mid, conv_keys)
        s = _reach(s, mid, conv_keys)
        n_inner = cfg["num_conv"] if cls == "ResNet" else 7
        for _ in range(cfg["num_blocks"]):
            y = s
            for _ in range(n_inner):
                y = _reach(y, mid, conv_keys)
            if set(y) != set(s):
                return None
        s = _reach(s, mid, conv_keys)
        r = _reach(s, tgt, conv_keys)
        return [(t, c) for t, c in out_types if t in r]
    if cls == "UNet":
        s = in_types
        for _ in range(cfg["num_conv"]):
            s = _reach(s, mid, conv_keys)
        res = []
        for _ in range(cfg["num_downsamples"]):
            res.append(s)
            for _ in range(cfg["num_conv"]):
                s = _reach(s, mid, conv_keys)
        for r_ in reversed(res):
            u = _reach(s, mid, up_keys)
            s = list(set(u) | set(r_))
            for _ in range(cfg["num_conv"]):
                s = _reach(s, mid, conv_keys)
        r = _reach(s, tgt, conv_keys)
        return [(t, c) for t, c in out_types if t in r]
    raise ValueError(cls)


def arch_key(cfg: dict) -> str:
    return "|".join(
        str(cfg[k]) for k in ("cls", "equivariant", "D", "in_sig", "out_sig", "depth", "use_bias", "activation", "use_group_norm", "preact", "num_blocks", "num_conv", "torus", "spatial")
    )


def param_leaves(model) -> list:
    return [l for l in jax.tree_util.tree_leaves(eqx.filter(model, eqx.is_inexact_array))]
