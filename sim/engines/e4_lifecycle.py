"""E4: model life-cycle and disk (C20, C13 save/load).

For a model drawn from the constructor space, a history of life-cycle events:
  tree_map identity, eqx.nn.inference_mode on/off, optimiser update (parameters move), ml.save -> ml.load
  into a differently initialised twin through SimDisk with F-disk active (short writes/reads, ENOSPC/EIO,
  crash with torn page cache), call through eqx.filter_jit, call on an input that crossed a boundary.
After every event the model is called directly and its output is checked against the requested
signature (C20); after save/load the loaded leaves and outputs must be bit-equal (C13).
"""
from __future__ import annotations

import io
from typing import Any, Optional

import numpy as np
import jax
import jax.numpy as jnp
import equinox as eqx
import optax

import ginjax.geometric as geom
import ginjax.ml as ml
import ginjax.models as models
import ginjax.ml.training as training

from ..core import SimCrash, Violation, ddmin, make_rng, shape_hash
from ..world import World
from . import modelzoo as zoo
from .common import arr_bytes, capture_stdout

_JIT_ID = jax.jit(lambda m: m)


# --------------------------------------------------------------------------- plans
def gen_events(rng, n_lo=3, n_hi=8, with_disk=True) -> list:
    evs = []
    for _ in range(rng.randint(n_lo, n_hi)):
        r = rng.random()
        if r < 0.18:
            evs.append({"ev": "tree_map"})
        elif r < 0.34:
            evs.append({"ev": "inference", "value": rng.random() < 0.6})
        elif r < 0.54:
            evs.append({"ev": "update", "seed": rng.getrandbits(24), "lr": rng.choice([0.05, 0.3])})
        elif r < 0.76 and with_disk:
            evs.append(gen_save_load(rng))
        elif r < 0.84:
            evs.append({"ev": "jit_call"})
        elif r < 0.90:
            evs.append({"ev": "tweak_scalars"})
        else:
            evs.append({"ev": "transported_input", "kind": rng.choice(["jit", "tree", "reinsert"])})
    return evs


def gen_save_load(rng) -> dict:
    ev: dict[str, Any] = {"ev": "save_load", "write_faults": {}, "read_faults": {}, "crash": None, "buffer": rng.choice([64, 512, 8192, 8192]), "same_path": rng.random() < 0.7, "writeback": rng.random() < 0.8}
    r = rng.random()
    if r < 0.35:
        pass  # fault free
    elif r < 0.6:
        for _ in range(rng.randint(1, 6)):
            ev["write_faults"][str(rng.randint(1, 60))] = "short"
        for _ in range(rng.randint(0, 6)):
            ev["read_faults"][str(rng.choice([1, 1, 2, 3, rng.randint(1, 80)]))] = "short"
    elif r < 0.75:
        ev["write_faults"][str(rng.randint(1, 25))] = rng.choice(["enospc", "eio"])
    elif r < 0.82:
        ev["read_faults"][str(rng.randint(1, 30))] = "eio"
    else:
        ev["crash"] = {"at_write": rng.choice([None, rng.randint(1, 6), rng.randint(1, 30)]), "seed": rng.getrandbits(24)}
    return ev


SER_CLASSES = ["LayerNorm", "VectorNeuronNonlinear", "GroupAverage", "ModelWrapper", "Climate1D", "ConvContract", "ConvBlock", "ResNet"]


def gen_plan(rng, profile: dict, seed: int) -> dict:
    mode = profile.get("mode", "lifecycle")
    if mode == "lifecycle" and profile.get("fixed_cfgs"):
        cfgs = profile["fixed_cfgs"]
        cfg = dict(cfgs[rng.randrange(len(cfgs))])
        return {"mode": mode, "cfg": cfg, "model_key": rng.getrandbits(31), "twin_key": rng.getrandbits(31), "x_seed": rng.getrandbits(24), "events": gen_events(rng, 1, 3)}
    if mode == "lifecycle":
        cfg = zoo.gen_cfg(rng, classes=profile.get("classes"), dims=tuple(profile.get("dims", (2, 2, 2, 3))))
        return {
            "mode": mode, "cfg": cfg, "model_key": rng.getrandbits(31), "twin_key": rng.getrandbits(31), "x_seed": rng.getrandbits(24),
            "events": gen_events(rng),
        }
    if mode == "wrapper":
        return gen_wrapper_plan(rng)
    cls = rng.choice(SER_CLASSES)
    if cls in ("ConvContract", "ConvBlock", "ResNet"):
        cfg = zoo.gen_cfg(rng, classes=[cls], dims=(2, 2, 3))
    else:
        D = 2 if cls == "Climate1D" else rng.choice([2, 2, 3])
        cfg = {"cls": cls, "D": D, "sig": zoo.gen_sig(rng, D, 1), "spatial": [4] * D, "torus": True, "groups": 1, "c": rng.randint(1, 3), "past": rng.randint(1, 2)}
    evs = [{"ev": "update", "seed": rng.getrandbits(24), "lr": 0.3}]
    if rng.random() < 0.6:
        # move the non-array leaves too (python floats such as a norm's eps, the inference flag of wrappers): a
        # checkpoint must carry them, the twin it is loaded into has the constructor defaults
        evs.append({"ev": "tweak_scalars"})
        evs.append({"ev": "inference", "value": True})
    for _ in range(rng.randint(1, 3)):
        evs.append(gen_save_load(rng))
        if rng.random() < 0.4:
            evs.append({"ev": "update", "seed": rng.getrandbits(24), "lr": 0.3})
    return {"mode": mode, "cfg": cfg, "model_key": rng.getrandbits(31), "twin_key": rng.getrandbits(31), "x_seed": rng.getrandbits(24), "events": evs}


def plan_size(plan: dict) -> int:
    return len(plan["events"])


def setup(job: dict, widx: int) -> dict:
    return {}


# --------------------------------------------------------------------------- model construction
class _Conv1dInner(eqx.Module):
    conv: eqx.nn.Conv

    def __init__(self, c, key):
        self.conv = eqx.nn.Conv(1, c, c, 3, padding="SAME", key=key)

    def __call__(self, x):
        return self.conv(x)


def build_any(cfg: dict, key):
    cls = cfg["cls"]
    if cls in ("ConvContract", "ConvBlock", "ResNet", "DilResNet", "UNet"):
        return zoo.build_model(cfg, key)
    D = cfg["D"]
    s = zoo.sig(cfg["sig"])
    if cls == "LayerNorm":
        return ml.LayerNorm(s, D)
    if cls == "VectorNeuronNonlinear":
        return ml.VectorNeuronNonlinear(s, D, key=key)
    if cls == "GroupAverage":
        inner = models.ResNet(D, s, s, depth=2, num_blocks=1, equivariant=False, kernel_size=3, key=key)
        return models.GroupAverage(inner, zoo.banks(D)["ops"][:4], always_average=False)
    if cls == "ModelWrapper":
        cin = sum(c * D**k for k, _, c in cfg["sig"])
        return models.ModelWrapper(D, eqx.nn.Conv(D, cin, cin, 3, padding="SAME", key=key), s, True)
    if cls == "Climate1D":
        c, past = cfg["c"], cfg["past"]
        out2d = geom.Signature((((0, 0), c * past), ((1, 0), c * past)))
        n_lats = cfg["spatial"][1]
        keys1d = models.Climate1D.get_1d_signature(out2d, n_lats)
        ctot = sum(cc for _, cc in keys1d)
        return models.Climate1D(models.ModelWrapper(1, _Conv1dInner(ctot, key), keys1d, True), out2d, past, past, tuple(cfg["spatial"]), {}, (True, False))
    raise ValueError(cls)


def probe_any(cfg: dict, seed: int):
    cls = cfg["cls"]
    if cls in ("ConvContract", "ConvBlock", "ResNet", "DilResNet", "UNet"):
        return zoo.probe_input(cfg, seed)
    D = cfg["D"]
    rs = np.random.RandomState(seed % (2**31 - 1))
    if cls == "Climate1D":
        c, past = cfg["c"], cfg["past"]
        return geom.MultiImage(
            {(0, 0): jnp.asarray(rs.normal(size=(c * past,) + tuple(cfg["spatial"])).astype(np.float32)),
             (1, 0): jnp.asarray(rs.normal(size=(c * past,) + tuple(cfg["spatial"]) + (2,)).astype(np.float32))}, 2, (True, False))
    data = {(k, p): jnp.asarray(rs.normal(size=(c,) + tuple(cfg["spatial"]) + (D,) * k).astype(np.float32)) for k, p, c in cfg["sig"]}
    return geom.MultiImage(data, D, cfg["torus"])


def perturb(model, seed: int, lr: float):
    """one optimiser update with synthetic gradients: every trainable leaf moves; the invariant filter bank is
    only rescaled by a common factor, as it is in real training with weight decay (its gradient is zero)."""
    params = eqx.filter(model, eqx.is_inexact_array)
    leaves, treedef = jax.tree_util.tree_flatten_with_path(params)
    rs = np.random.RandomState(seed % (2**31 - 1))
    grads = []
    for path, leaf in leaves:
        name = jax.tree_util.keystr(path)
        if "invariant_filters" in name:
            grads.append(leaf * (0.03 / lr))  # what decoupled weight decay does: a common rescaling (x0.97) of the bank
        else:
            grads.append(jnp.asarray(rs.normal(size=leaf.shape).astype(np.float32)))
    grads = jax.tree_util.tree_unflatten(jax.tree_util.tree_structure(params), grads)
    opt = optax.sgd(lr)
    st = opt.init(params)
    updates, st = opt.update(grads, st, params)
    return eqx.apply_updates(model, updates)


def tweak_scalars(model):
    """multiply every python-float leaf (e.g. GroupNorm.eps) by 100: the model stays callable, its output changes"""
    leaves, treedef = jax.tree_util.tree_flatten(model)
    new = [(l * 100.0) if (isinstance(l, float) and not isinstance(l, bool)) else l for l in leaves]
    return jax.tree_util.tree_unflatten(treedef, new)


def leaves_of(model) -> list:
    out = []
    for path, leaf in jax.tree_util.tree_flatten_with_path(model)[0]:
        if eqx.is_array(leaf):
            out.append((jax.tree_util.keystr(path), np.asarray(leaf)))
        elif isinstance(leaf, (bool, int, float)):
            out.append((jax.tree_util.keystr(path), leaf))
    return out


# --------------------------------------------------------------------------- conformance (C20)
def conform(out, cfg: dict, expected: list, x, ordered: bool) -> Optional[dict]:
    if not isinstance(out, geom.MultiImage):
        return {"what": "not a MultiImage", "type": str(type(out))}
    got = [(tuple(t), int(c)) for t, c in out.get_signature()] if len(out.keys()) else []
    want = [(tuple(t), int(c)) for t, c in expected]
    if sorted(got) != sorted(want):
        return {"what": "types_or_channels", "got": got, "want": want}
    if ordered and got != want:
        return {"what": "type_order", "got": got, "want": want}
    if want:
        if tuple(out.get_spatial_dims()) != tuple(x.get_spatial_dims()):
            return {"what": "spatial_shape", "got": list(out.get_spatial_dims()), "want": list(x.get_spatial_dims())}
        for (k, p), c in want:
            if out[(k, p)].shape != (c,) + tuple(x.get_spatial_dims()) + (cfg["D"],) * k:
                return {"what": "block_shape", "type": [k, p], "got": list(out[(k, p)].shape)}
    if out.D != x.D or tuple(out.is_torus) != tuple(x.is_torus):
        return {"what": "D_or_flags", "D": out.D, "is_torus": list(out.is_torus)}
    return None


# --------------------------------------------------------------------------- wrapper classes with an exact oracle (C20)
class _Identity(eqx.Module):
    """inner 'network' of a ModelWrapper: returns its (channels, spatial...) array unchanged, so that the wrapper's
    flattening of tensor components into scalar channels followed by its inverse must reproduce the input exactly"""
    gain: jax.Array

    def __init__(self):
        self.gain = jnp.ones(())

    def __call__(self, x):
        return x * self.gain


def gen_wrapper_plan(rng) -> dict:
    cls = rng.choice(["ModelWrapper", "ModelWrapper", "GroupAverage", "Climate1D"])
    if cls == "Climate1D":
        D = 2
        c, past = rng.randint(1, 2), rng.randint(1, 3)
        types = rng.choice([[(0, 0)], [(0, 0), (1, 0)], [(1, 0), (0, 0)], [(0, 1), (1, 0), (0, 0)], [(1, 0)], [(0, 0), (0, 1)]])
        sig = [[k, p, c * past] for k, p in types]
        spatial = rng.choice([[4, 3], [3, 4], [4, 4], [2, 5], [c * past * len(types), 3], [3, c * past * len(types)]])
        extra = {"c": c, "past": past}
    else:
        D = rng.choice([2, 2, 3])
        sig = zoo.gen_sig(rng, D, 2 if D == 2 else 1, n_max=3, cmax=3)
        total = sum(c * D**k for k, _, c in sig)
        r = rng.random()
        if cls == "GroupAverage":
            n = rng.choice([2, 3, 4, total if total <= 6 else 3])
            spatial = [n] * D  # the group acts on square grids
        elif r < 0.35:
            # a spatial extent that coincides with the number of scalar channels (axes must not be confused)
            spatial = [rng.randint(2, 4)] * D
            spatial[rng.choice([0, D - 1])] = total if total <= 12 else rng.randint(2, 5)
        else:
            spatial = [rng.randint(1, 5) for _ in range(D)]
        extra = {"n_ops": rng.choice([1, 2, 4, 8]), "always": rng.random() < 0.5}
    evs = []
    for _ in range(rng.randint(1, 5)):
        evs.append(rng.choice([{"ev": "tree_map"}, {"ev": "inference", "value": rng.random() < 0.7}, {"ev": "jit_call"},
                               {"ev": "transported_input", "kind": rng.choice(["jit", "tree", "reverse"])}, {"ev": "other_dimension"}]))
    return {"mode": "wrapper", "cfg": {"cls": cls, "D": D, "sig": sig, "spatial": spatial, "torus": rng.choice([True, False, "mixed"]), **extra},
            "model_key": 0, "twin_key": 0, "x_seed": rng.getrandbits(24), "events": evs}


def _int_input(sig, D, spatial, torus, seed):
    rs = np.random.RandomState(seed % (2**31 - 1))
    if torus == "mixed":
        torus = tuple(i % 2 == 0 for i in range(D))
    data = {(k, p): jnp.asarray(rs.randint(-40, 41, size=(c,) + tuple(spatial) + (D,) * k).astype(np.float32)) for k, p, c in sig}
    return geom.MultiImage(data, D, torus)


def _build_wrapper(cfg):
    D, s = cfg["D"], zoo.sig(cfg["sig"])
    flags = tuple(i % 2 == 0 for i in range(D)) if cfg["torus"] == "mixed" else cfg["torus"]
    if cfg["cls"] == "ModelWrapper":
        return models.ModelWrapper(D, _Identity(), s, flags)
    if cfg["cls"] == "GroupAverage":
        return models.GroupAverage(models.ModelWrapper(D, _Identity(), s, flags), zoo.banks(D)["ops"][: cfg["n_ops"]], always_average=cfg["always"])
    n_lats = cfg["spatial"][1]
    keys1d = models.Climate1D.get_1d_signature(s, n_lats)
    return models.Climate1D(models.ModelWrapper(1, _Identity(), keys1d, True), s, cfg["past"], cfg["past"], tuple(cfg["spatial"]), {}, (True, False))


def _exec_wrapper(plan: dict) -> dict:
    """ModelWrapper / GroupAverage / Climate1D around an identity network: the output must be the input, exactly, by
    type, with the requested type order, D, flags and spatial shape - fresh and after every life-cycle event."""
    world = World(plan.get("seed", 0))
    world.log.add("plan", {"cfg": plan["cfg"], "events": plan["events"]})
    cfg = plan["cfg"]
    violations: list[dict] = []
    counters: dict[str, int] = {}
    kinds: list[str] = []
    evals = 0
    site0 = f"{cfg['cls']}/wrapper"

    def viol(clause, detail, where):
        violations.append(Violation("C20", clause, {**detail, "after": where, "history": kinds[:], "cfg": cfg}, f"{site0}/{clause}/{where.split(':')[0]}").to_json())

    torus = (True, False) if cfg["cls"] == "Climate1D" else cfg["torus"]
    x = _int_input(cfg["sig"], cfg["D"], cfg["spatial"], torus, plan["x_seed"])
    want_sig = [((k, p), c) for k, p, c in cfg["sig"]]

    def check(m, xin, where, ordered=True, call=None):
        nonlocal evals
        try:
            out = (call or zoo.call_model)(m, xin)
        except Exception as e:
            viol("raises", {"error": f"{type(e).__name__}: {str(e)[:300]}"}, where)
            return
        evals += 1
        got = [(tuple(t), int(c)) for t, c in out.get_signature()] if len(out.keys()) else []
        if sorted(got) != sorted(want_sig):
            return viol("types_or_channels", {"got": got, "want": want_sig}, where)
        if ordered and got != want_sig:
            return viol("type_order", {"got": got, "want": want_sig}, where)
        if out.D != x.D or tuple(out.is_torus) != tuple(x.is_torus):
            return viol("D_or_flags", {"D": out.D, "is_torus": list(out.is_torus)}, where)
        for t in x.keys():
            a, b = np.asarray(out[t]), np.asarray(x[t])
            if a.shape != b.shape:
                return viol("block_shape", {"type": list(t), "got": list(a.shape), "want": list(b.shape)}, where)
            if not np.array_equal(a, b):
                return viol("component_position", {"type": list(t), "n_wrong": int(np.sum(a != b)), "n": int(a.size)}, where)
        world.log.add("out", [arr_bytes(np.asarray(out[t])) for t in sorted(out.keys())])

    try:
        model = _build_wrapper(cfg)
    except Exception as e:
        viol("raises", {"error": f"{type(e).__name__}: {str(e)[:300]}"}, "construct")
        return _result(world, 0, counters, ["construct_raises"], violations)
    check(model, x, "fresh")
    for ev in plan["events"]:
        if violations:
            break
        kind = ev["ev"]
        kinds.append(kind)
        if kind == "tree_map":
            model = jax.tree_util.tree_map(lambda a: a, model)
            check(model, x, kind)
        elif kind == "inference":
            model = eqx.nn.inference_mode(model, ev["value"])
            check(model, x, kind)
        elif kind == "jit_call":
            check(model, x, kind, ordered=False, call=eqx.filter_jit(lambda m, xx: zoo.call_model(m, xx)))
        elif kind == "transported_input":
            check(model, _transport_input(x, ev["kind"]), "transported_input:" + ev["kind"])
        elif kind == "other_dimension" and cfg["cls"] != "Climate1D":
            # the same signature is used in the other dimension in between (process-wide state keyed by the signature
            # alone must not leak from one dimension into the other)
            D2 = 3 if cfg["D"] == 2 else 2
            sig2 = [[k, p, c] for k, p, c in cfg["sig"]]
            m2 = models.ModelWrapper(D2, _Identity(), zoo.sig(sig2), True)
            x2 = _int_input(sig2, D2, [2] * D2, True, plan["x_seed"] + 5)
            try:
                o2 = zoo.call_model(m2, x2)
                for t in x2.keys():
                    if not np.array_equal(np.asarray(o2[t]), np.asarray(x2[t])):
                        viol("component_position", {"type": list(t), "D": D2}, kind)
                        break
            except Exception as e:
                viol("raises", {"error": f"{type(e).__name__}: {str(e)[:300]}", "D": D2}, kind)
            check(model, x, kind)
        counters[kind] = counters.get(kind, 0) + 1
    counters["wrapper_" + cfg["cls"]] = 1
    if cfg["spatial"][-1] == sum(c * cfg["D"] ** k for k, _, c in cfg["sig"]) or cfg["spatial"][0] == sum(c * cfg["D"] ** k for k, _, c in cfg["sig"]):
        counters["extent_equals_channel_count"] = 1
    return _result(world, evals, counters, [cfg["cls"]] + kinds, violations)


# --------------------------------------------------------------------------- execution
def execute(plan: dict, ctx: dict) -> dict:
    if plan.get("mode") == "wrapper":
        return _exec_wrapper(plan)
    world = World(plan.get("seed", 0))
    rng = make_rng(plan.get("seed", 0) ^ 0x5EED)
    world.log.add("plan", {"cfg": plan["cfg"], "events": plan["events"]})
    violations: list[dict] = []
    counters: dict[str, int] = {}
    evals = 0
    kinds: list[str] = []

    def bump(k, n=1):
        counters[k] = counters.get(k, 0) + n

    def viol(prop, clause, detail, site):
        violations.append(Violation(prop, clause, detail, site).to_json())

    cfg = plan["cfg"]
    cls = cfg["cls"]
    lifecycle = plan["mode"] == "lifecycle"
    site0 = f"{cls}/{'eq' if cfg.get('equivariant', True) else 'conv'}/bias={cfg.get('use_bias')}"
    try:
        model = build_any(cfg, jax.random.PRNGKey(plan["model_key"]))
        x = probe_any(cfg, plan["x_seed"])
    except NotImplementedError as e:
        return _result(world, 0, counters, kinds, violations, discarded=True)
    expected = zoo.expected_signature(cfg) if lifecycle else None
    if lifecycle and expected is None:
        # the oracle predicts that the network's own residual addition is ill-typed for this bank
        # (the set of reachable types changes inside a residual block): the model cannot return anything
        try:
            zoo.call_model(model, x)
            bump("oracle_predicts_ill_typed_but_model_returns")
            return _result(world, 0, counters, kinds, violations, discarded=True)
        except Exception as e:
            tag = "raises:residual_types" if "Must have same types" in str(e) else "raises"
            viol("C20", "raises", {"where": "fresh", "error": f"{type(e).__name__}: {str(e)[:300]}", "cfg": cfg}, f"{site0}/{tag}/fresh")
            return _result(world, 1, counters, ["ill_typed_residual"], violations)
    if lifecycle and [t for t, _ in expected] != [(k, p) for k, p, _ in cfg["out_sig"]]:
        bump("unreachable_types_configs")
    state = "fresh"

    # value stability across identity-like events is judged on three probes at once: a real ordering/position bug
    # changes the output on every input, while float32 rounding amplified by a discontinuous or ill-conditioned layer
    # (sign of a near-zero pseudoscalar in the vector-neuron nonlinearity, whitening of a nearly constant field)
    # shows on isolated inputs only.
    extra_probes = [probe_any(cfg, plan["x_seed"] + 17 * (i + 1)) for i in range(2)] if lifecycle else []
    last = {"outs": None}

    def outputs_on_probes(m, first_out, transform=None):
        outs = [first_out]
        for xp in extra_probes:
            try:
                outs.append(zoo.call_model(m, transform(xp) if transform else xp))
            except Exception:
                return None
        return [{t: np.asarray(v) for t, v in o.items()} for o in outs]

    def floors(m):
        """relative response of the model to a 1e-6 relative jitter of each probe: how far float32 rounding alone can
        move the output (a vector LayerNorm of a rank-deficient field, e.g. vectors derived from one scalar channel, is
        chaotic: eager and jitted evaluation then differ by tens of percent on every input)"""
        from .e2_train import jitter

        out = []
        for i, xp in enumerate([x] + extra_probes):
            try:
                a = zoo.call_model(m, xp)
                b = zoo.call_model(m, jitter(xp, 31 + i))
                f = 0.0
                for t in a.keys():
                    scale = max(1.0, float(np.max(np.abs(np.asarray(a[t])))))
                    f = max(f, float(np.max(np.abs(np.asarray(a[t]) - np.asarray(b[t])))) / scale)
                out.append(f)
            except Exception:
                out.append(float("inf"))
        return out

    def values_stable(outs, where, model_now=None):
        prev = last["outs"]
        if prev is None or outs is None:
            return
        worst = None
        fl = None
        for pi, (o, pv) in enumerate(zip(outs, prev)):
            d_probe = 0.0
            for t in pv:
                if t not in o or o[t].shape != pv[t].shape or not (np.all(np.isfinite(o[t])) and np.all(np.isfinite(pv[t]))):
                    return
                scale = max(1.0, float(np.max(np.abs(pv[t]))))
                d_probe = max(d_probe, float(np.max(np.abs(o[t] - pv[t]))) / scale)
            if d_probe <= 1e-3:
                if d_probe > 0:
                    bump("identity_event_rounding_diffs")
                return  # at least one probe is unchanged: not a systematic change
            if model_now is not None:
                if fl is None:
                    fl = floors(model_now)
                if not (d_probe > 30.0 * fl[pi]):
                    bump("ill_conditioned_model_in_value_comparison")
                    return
            worst = d_probe if worst is None else min(worst, d_probe)
        viol("C20", "values_change_across_identity_event", {"after": where, "min_relative_diff_over_3_probes": worst, "history": kinds[:]}, f"{site0}/values_change/{where.split(':')[0]}")

    def check_conformance(m, xin, where, ordered=True):
        nonlocal evals
        try:
            out = zoo.call_model(m, xin)
        except Exception as e:
            tag = "raises:in_channels" if "in_channels" in str(e) else "raises"
            viol("C20", "raises", {"where": where, "error": f"{type(e).__name__}: {str(e)[:300]}", "cfg": cfg}, f"{site0}/{tag}/{where}")
            return None
        evals += 1
        err = conform(out, cfg, expected, xin, ordered)
        if err is not None:
            viol("C20", err["what"], {"after": where, "history": kinds[:], **err}, f"{site0}/{err['what']}/{where}")
        else:
            kind0 = where.split(":")[0]
            tr = (lambda xx: _transport_input(xx, where.split(":")[1])) if kind0 == "transported_input" else None
            outs = outputs_on_probes(m, out, tr)
            # (a transported *input* is not an identity event for values: a conventional model flattens its input's
            # types into channels in storage order, so a re-ordered input is a different channel layout; only the
            # signature is checked for it)
            if kind0 in ("tree_map", "inference", "save_load"):
                values_stable(outs, where, m)
            if kind0 != "transported_input":
                last["outs"] = outs
        return out

    if not lifecycle:
        try:
            zoo.call_model(model, x)
        except Exception as e:
            # a model that cannot be applied when fresh (the ill-typed architectures of known_findings.json) is C20's
            # business; there is nothing to round-trip
            bump("discarded_model_raises_when_fresh")
            world.log.add("discard", f"{type(e).__name__}: {str(e)[:200]}")
            return _result(world, 0, counters, kinds, violations, discarded=True)
    if lifecycle:
        if check_conformance(model, x, "fresh") is None:
            # the fresh model cannot be applied at all: no later event is meaningful
            return _result(world, evals, counters, ["fresh_raises"], violations)
    with world:
        for i, ev in enumerate(plan["events"]):
            kind = ev["ev"]
            kinds.append(kind if kind != "save_load" else "save_load:" + _fault_tag(ev))
            world.log.add("event", ev)
            try:
                if kind == "tree_map":
                    model = jax.tree_util.tree_map(lambda a: a, model)
                elif kind == "inference":
                    model = eqx.nn.inference_mode(model, ev["value"])
                elif kind == "update":
                    model = perturb(model, ev["seed"], ev["lr"])
                    bump("updates")
                elif kind == "tweak_scalars":
                    n_float = sum(1 for l in jax.tree_util.tree_leaves(model) if isinstance(l, float) and not isinstance(l, bool))
                    model = tweak_scalars(model)
                    bump("scalar_leaves_tweaked", n_float)
                elif kind == "save_load":
                    model = _save_load(plan, ev, model, x, world, viol, bump, site0, i)
                    evals += 1
                elif kind == "jit_call":
                    if lifecycle:
                        out = eqx.filter_jit(lambda m, xx: zoo.call_model(m, xx))(model, x)
                        evals += 1
                        err = conform(out, cfg, expected, x, ordered=False)
                        if err is not None:
                            viol("C20", err["what"], {"after": "jit_call", **err}, f"{site0}/{err['what']}/jit_call")
                        else:
                            jf = eqx.filter_jit(lambda m, xx: zoo.call_model(m, xx))
                            try:
                                values_stable([{t: np.asarray(v) for t, v in o.items()} for o in [out] + [jf(model, xp) for xp in extra_probes]], "jit_call", model)
                            except Exception:
                                pass
                        if err is not None:
                            pass
                        elif [(tuple(t), c) for t, c in out.get_signature()] != [(tuple(t), c) for t, c in expected]:
                            bump("jit_return_sorted_order_differs")
                elif kind == "transported_input":
                    if lifecycle:
                        xt = _transport_input(x, ev["kind"])
                        check_conformance(model, xt, "transported_input:" + ev["kind"])
            except SimCrash:
                raise
            except Exception as e:
                viol("C20" if lifecycle else "C13", "raises", {"event": ev, "error": f"{type(e).__name__}: {str(e)[:300]}"}, f"{site0}/{kind}")
                break
            if lifecycle and kind in ("tree_map", "inference", "update", "save_load", "tweak_scalars"):
                check_conformance(model, x, kind)
            if len(violations) >= 3:
                break
    final = leaves_of(model)
    for name, leaf in final[:40]:
        world.log.add("leaf", arr_bytes(leaf) if isinstance(leaf, np.ndarray) else repr(leaf).encode())
    return _result(world, evals, counters, kinds, violations)


def _fault_tag(ev: dict) -> str:
    tags = sorted(set(ev["write_faults"].values()) | {"r" + v for v in ev["read_faults"].values()})
    if ev.get("crash"):
        tags.append("crash")
    return "+".join(tags) or "clean"


def _result(world, evals, counters, kinds, violations, discarded=False):
    return {
        "digest": world.log.digest(),
        "evaluations": evals,
        "counters": counters,
        "faults": dict(world.faults),
        "kinds": kinds,
        "shape": shape_hash(kinds),
        "nontrivial": len(kinds) >= 1 and not discarded,
        "violations": violations,
        "discarded": discarded,
        "sim_time_s": world.clock.covered,
        "trace_head": world.log.head,
    }


def _transport_input(x, kind):
    if kind == "jit":
        return _JIT_ID(x)
    if kind == "tree":
        lv, td = jax.tree_util.tree_flatten(x)
        return jax.tree_util.tree_unflatten(td, lv)
    items = list(x.items())[::-1]
    return geom.MultiImage(dict(items), x.D, x.is_torus)


def _save_load(plan, ev, model, x, world: World, viol, bump, site0, idx):
    """ml.save -> [crash] -> ml.load into a twin built with another key. Returns the model to continue with."""
    cfg = plan["cfg"]
    disk = world.disk
    # the training loop overwrites one path over and over: mostly reuse it, so that a second (possibly shorter or
    # partly written) file lands on top of an older complete one
    path = "ckpt.eqx" if ev.get("same_path", True) else f"ckpt_{idx}.eqx"
    base_w, base_r = disk.write_calls, disk.read_calls
    disk.write_faults = {base_w + int(k): v for k, v in ev["write_faults"].items()}
    disk.read_faults = {}
    disk.buffer_size = ev.get("buffer", 8192)
    crash = ev.get("crash")
    if crash and crash.get("at_write"):
        # die inside the checkpoint write
        target = base_w + crash["at_write"]
        orig = dict(disk.write_faults)

        class _CrashAt(dict):
            def get(self, k, d=None):
                if k == target:
                    world.faults.hit("crash@disk_write")
                    disk.dead = True
                    raise SimCrash("crash inside checkpoint write")
                return orig.get(k, d)

        disk.write_faults = _CrashAt()
    completed = world.__dict__.setdefault("completed_saves", {})  # path -> leaves of every completely saved model
    saved_ok, crashed = False, False
    full_stream = io.BytesIO()
    eqx.tree_serialise_leaves(full_stream, model)  # what a complete save writes, byte for byte
    full_bytes = full_stream.getvalue()
    hard_before = world.faults.get("disk_enospc", 0) + world.faults.get("disk_eio", 0)
    before = leaves_of(model)
    try:
        ml.save(path, model)
        saved_ok = True
        completed.setdefault(path, []).append(before)
        bump("save_returned")
    except SimCrash:
        crashed = True
    except Exception as e:  # equinox wraps the OSError of a failed write in a TreePathError
        hard = world.faults.get("disk_enospc", 0) + world.faults.get("disk_eio", 0)
        if hard > hard_before:
            bump("save_raised_on_injected_error")
        else:
            viol("C13", "save_raises", {"error": f"{type(e).__name__}: {str(e)[:300]}", "faults": _fault_tag(ev), "cls": cfg["cls"]}, f"{site0}/save_load/{_fault_tag(ev)}")
    disk.write_faults = {}
    if crash and not crashed:
        crashed = True  # die right after save returned, before any write-back
        world.faults.hit("crash@after_save")
    if crashed:
        outcome = disk.crash(make_rng(crash["seed"]))
        bump("crash_outcome_" + outcome.get(path, "none"))
    if not crashed and any(v == "short" for v in ev["write_faults"].values()):
        bump("short_write_plans")
    twin = build_any(cfg, jax.random.PRNGKey(plan["twin_key"]))
    disk.read_faults = {disk.read_calls + int(k): v for k, v in ev["read_faults"].items()}
    injected_read_eio = any(v == "eio" for v in ev["read_faults"].values())
    loaded = None
    try:
        loaded = ml.load(path, twin)
        bump("load_returned")
    except Exception as e:
        bump("load_raised")
        c_ = disk.content(path) or b""
        if crashed and len(c_) < len(full_bytes) and full_bytes.startswith(c_):
            bump("strict_prefix_load_raised")
        fired_eio = world.faults.get("disk_read_eio", 0) > 0 and injected_read_eio
        if saved_ok and not crashed and not fired_eio:
            viol("C13", "load_raises", {"error": f"{type(e).__name__}: {str(e)[:300]}", "faults": _fault_tag(ev), "cls": cfg["cls"]}, f"{site0}/save_load/{_fault_tag(ev)}")
        disk.read_faults = {}
        return model
    disk.read_faults = {}
    after = leaves_of(loaded)
    same = len(before) == len(after) and all(
        (n1 == n2) and (np.array_equal(a, b, equal_nan=True) and a.dtype == b.dtype if isinstance(a, np.ndarray) else a == b) for (n1, a), (n2, b) in zip(before, after)
    )
    if saved_ok and not crashed:
        if not same:
            bad = [n1 for (n1, a), (n2, b) in zip(before, after) if not (np.array_equal(a, b, equal_nan=True) if isinstance(a, np.ndarray) else a == b)]
            viol("C13", "save_load_leaves", {"differing_leaves": bad[:6], "n_leaves": len(before), "faults": _fault_tag(ev), "cls": cfg["cls"]}, f"{site0}/save_load/{_fault_tag(ev)}")
            return model
        # bit-equal outputs on the probe input
        try:
            o1 = zoo.call_model(model, x)
            o2 = zoo.call_model(loaded, x)
            for t in o1.keys():
                if t not in o2 or not np.array_equal(np.asarray(o1[t]), np.asarray(o2[t]), equal_nan=True):
                    viol("C13", "save_load_outputs", {"type": list(t), "cls": cfg["cls"]}, f"{site0}/save_load/outputs")
                    break
            bump("roundtrips_verified")
        except Exception as e:
            viol("C13", "raises", {"error": f"{type(e).__name__}: {str(e)[:300]}"}, f"{site0}/save_load/call")
        if ev.get("writeback", True):
            disk.sync()  # checkpoints are minutes apart: the page cache has been written back before the next one
        return loaded
    # After a crash or a failed save the statement promises nothing about durability. What is still decidable and sound
    # is the classic crash-consistency clause "old or new, never garbage": if load *returns*, the model must be the one
    # being saved or one of the models completely saved to that path before. With the unchanged save() ('wb': truncate,
    # then sequential writes) the file after a crash is an old complete checkpoint, the new complete one, or a prefix of
    # the new one - and a strict prefix of an equinox leaf stream cannot be deserialised, so load raises.
    content = disk.content(path) or b""
    if not same:
        def _eq(l1, l2):
            return len(l1) == len(l2) and all((n1 == n2) and (np.array_equal(a, b, equal_nan=True) if isinstance(a, np.ndarray) else a == b) for (n1, a), (n2, b) in zip(l1, l2))

        if any(_eq(after, old) for old in completed.get(path, [])):
            bump("load_after_fault_returned_older_checkpoint")
            return model
        what = "strict prefix of the complete stream" if (len(content) < len(full_bytes) and full_bytes.startswith(content)) else "neither old nor new content"
        viol("C13", "crash_left_loadable_garbage", {"file": what, "file_bytes": len(content), "complete_bytes": len(full_bytes), "faults": _fault_tag(ev), "cls": cfg["cls"]}, f"{site0}/save_load/old_or_new")
        return model
    bump("load_after_fault_equal")
    return loaded


# --------------------------------------------------------------------------- shrinking
def shrink(plan: dict, fails) -> dict:
    evs = list(plan["events"])

    def with_events(sub):
        q = dict(plan)
        q["events"] = sub
        return q

    def attempt(q):
        try:
            return fails(q)
        except Exception:
            return False

    if attempt(with_events([])):
        return with_events([])
    keep = ddmin(evs, lambda sub: attempt(with_events(sub)), max_tests=40)
    p = with_events(keep)
    # simplify faults of save_load events
    for i, ev in enumerate(p["events"]):
        if ev["ev"] == "save_load" and (ev["write_faults"] or ev["read_faults"] or ev.get("crash")):
            q_evs = list(p["events"])
            q_evs[i] = {**ev, "write_faults": {}, "read_faults": {}, "crash": None}
            if attempt(with_events(q_evs)):
                p = with_events(q_evs)
    return p
