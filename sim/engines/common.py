"""Helpers shared by engines (imports jax; only loaded inside workers)."""
from __future__ import annotations

import contextlib
import hashlib
import io
import sys
from typing import Any

import numpy as np
import jax
import jax.numpy as jnp


def devices(n: int) -> list:
    devs = jax.devices()
    assert len(devs) >= n, f"need {n} host devices, have {len(devs)} (XLA_FLAGS not set?)"
    return devs[:n]


def arr_bytes(a: Any) -> bytes:
    x = np.asarray(a)
    return (str(x.dtype) + str(x.shape)).encode() + np.ascontiguousarray(x).tobytes()


def arr_digest(a: Any) -> str:
    return hashlib.sha256(arr_bytes(a)).hexdigest()[:16]


@contextlib.contextmanager
def capture_stdout():
    old = sys.stdout
    buf = io.StringIO()
    sys.stdout = buf
    try:
        yield buf
    finally:
        sys.stdout = old


def code_to_float(c: Any) -> float:
    """Loss letters are JSON-able: an int n means n/64, 'nan' and 'inf' are themselves."""
    if c == "nan":
        return float("nan")
    if c == "inf":
        return float("inf")
    if isinstance(c, str) and c.startswith("m"):
        return 1.0 - int(c[1:]) * 2.0**-20  # micro steps: exact in float32
    return int(c) / 64.0
