"""E2-scripted / direct / real: stopping conditions under drawn loss histories (C19).

modes
  direct : the three StopCondition classes driven call by call; each loss is handed over in a
           drawn representation (F-erase), epoch_time drawn (F-clock).
  loop   : the real ml.train / train_step / filter_pmap / get_batches / evaluate with a step-counter
           model, a counting optimiser and a table-lookup loss: the loss history is the drawn table,
           every executed line of train and of the stop condition is the repository's.
  real   : a tiny real equivariant ConvBlock with a real optax optimiser; the reference automaton
           consumes the losses observed at the stop seam.
"""
from __future__ import annotations

import math
from typing import Any, Optional

import numpy as np
import jax
import jax.numpy as jnp
import equinox as eqx
import optax

import ginjax.geometric as geom
import ginjax.ml as ml
import ginjax.models as models
import ginjax.ml.training as training

from ..core import StepBudgetExceeded, Violation, ddmin, shape_hash
from ..world import World
from .common import arr_digest, capture_stdout, code_to_float, devices

PROP = "C19"
S_MAX = 32  # script table length inside the model (fixed so that pmap compiles once per layout)
INF = float("inf")


# --------------------------------------------------------------------------- reference automaton
def ref_patience(losses: list[float], patience: int, min_delta: float):
    """Straight from the statement. Returns (decisions per epoch, best_epoch at each epoch)."""
    best, best_epoch, since = INF, 0, 0
    decisions, best_epochs, states = [], [], []
    for e, l in enumerate(losses, 1):
        if l < best - min_delta:  # improved on the best so far by more than min_delta
            best, best_epoch, since = l, e, 0
        else:
            since += 1
        decisions.append(since > patience)
        best_epochs.append(best_epoch)
        states.append((min(since, patience + 1), best_epoch == e))
    return decisions, best_epochs, states


# --------------------------------------------------------------------------- scripted model
class ScriptModel(models.MultiImageModule):
    t: jax.Array
    train_script: jax.Array
    val_script: jax.Array

    def __init__(self, train_script, val_script):
        self.t = jnp.zeros((), dtype=jnp.float32)
        self.train_script = jnp.asarray(train_script, dtype=jnp.float32)
        self.val_script = jnp.asarray(val_script, dtype=jnp.float32)

    def __call__(self, x, aux_data=None):
        return x, aux_data


def script_map_and_loss(model, x, y, aux_data):
    idx = jnp.clip(model.t.astype(jnp.int32), 0, S_MAX - 1)
    is_val = y[(0, 0)].reshape(-1)[0] > 0.5
    loss = jnp.where(is_val, model.val_script[idx], model.train_script[idx])
    return loss, aux_data


def counting_optimizer(world: World) -> optax.GradientTransformation:
    def init(params):
        return optax.EmptyState()

    def update(grads, state, params=None):
        world.seam("opt_update")
        updates = jax.tree_util.tree_map(jnp.zeros_like, grads)
        updates = eqx.tree_at(lambda m: m.t, updates, jnp.ones((), dtype=jnp.float32))
        return updates, state

    return optax.GradientTransformation(init, update)


def make_cond(c: dict):
    kind = c["kind"]
    if kind == "EpochStop":
        return ml.EpochStop(epochs=c["epochs"], verbose=c.get("verbose", 0))
    cls = ml.TrainLoss if kind == "TrainLoss" else ml.ValLoss
    return cls(patience=c["patience"], min_delta=c["min_delta"] / 64.0, verbose=c.get("verbose", 0))


def represent(x: Optional[float], how: str):
    if x is None:
        return None
    if how == "float":
        return float(x)
    if how == "np32":
        return np.float32(x)
    if how == "np64":
        return np.float64(x)
    if how == "jax0d":
        return jnp.asarray(x, dtype=jnp.float32)
    if how == "jax_mean":  # what train_step produces: mean over a device axis
        return jnp.mean(jnp.full((2,), x, dtype=jnp.float32), axis=0)
    raise ValueError(how)


REPRS = ["float", "np32", "np64", "jax0d", "jax_mean"]


# --------------------------------------------------------------------------- plan generation
def _letters(rng, n: int, with_special: bool) -> list:
    if rng.random() < 0.08:
        # a slow strict descent: 1 - j*2^-20 (exact in float32 and float64, relative steps of 1e-6): every epoch improves
        start = rng.randint(0, 200)
        steps = [rng.choice([1, 1, 2, 0]) for _ in range(n)]
        out, cur = [], start
        for st in steps:
            cur += st
            out.append(f"m{cur}")
        return out
    k = rng.choice([2, 3, 4, 6])
    alphabet = sorted(rng.sample(range(0, 257, 8), k))  # dyadic values n/64 in [0,4]
    mode = rng.choice(["uniform", "descend_then_flat", "descend_then_rise", "noisy_descend"])
    out: list[Any] = []
    cur = len(alphabet) - 1
    for i in range(n):
        if mode == "uniform":
            v = rng.choice(alphabet)
        elif mode == "descend_then_flat":
            cur = max(0, cur - (1 if rng.random() < 0.5 else 0))
            v = alphabet[cur]
        elif mode == "descend_then_rise":
            if i < n // 2:
                cur = max(0, cur - (1 if rng.random() < 0.6 else 0))
            else:
                cur = min(len(alphabet) - 1, cur + (1 if rng.random() < 0.6 else 0))
            v = alphabet[cur]
        else:
            cur = max(0, min(len(alphabet) - 1, cur + rng.choice([-1, -1, 0, 1])))
            v = alphabet[cur]
        if with_special and rng.random() < 0.12:
            v = rng.choice(["nan", "inf"])
        out.append(v)
    return out


def _gen_cond(rng) -> dict:
    kind = rng.choice(["TrainLoss", "TrainLoss", "ValLoss", "ValLoss", "EpochStop"])
    if kind == "EpochStop":
        return {"kind": kind, "epochs": rng.randint(1, 12), "verbose": rng.choice([0, 0, 1, 2])}
    return {
        "kind": kind,
        "patience": rng.randint(0, 3),
        "min_delta": rng.choice([0, 0, 8, 64]),
        "verbose": rng.choice([0, 0, 1]),
    }


def _gen_clock(rng, n: int) -> list[float]:
    style = rng.choice(["none", "none", "jumps", "stall", "backwards", "mixed"])
    if style == "none":
        return []
    out = []
    for _ in range(n):
        r = rng.random()
        if style == "jumps":
            out.append(1e6 if r < 0.3 else 45.0)
        elif style == "stall":
            out.append(0.0 if r < 0.5 else 30.0)
        elif style == "backwards":
            out.append(-3600.0 if r < 0.3 else 60.0)
        else:
            out.append(rng.choice([0.0, -1e6, 1e6, 20.0, -5.0]))
    return out


SWEEP_LETTERS = [0, 8, 16, 64]  # 0, 1/8, 1/4, 1
SWEEP_MAXLEN = 6
SWEEP_CONFIGS = [
    {"kind": kind, "patience": pat, "min_delta": md, "verbose": 0}
    for kind in ("TrainLoss", "ValLoss") for pat in (0, 1, 2, 3) for md in (0, 8)
]
SWEEP_REPRS = ["float", "np32", "jax0d"]


def sweep_size() -> int:
    n_hist = sum(len(SWEEP_LETTERS) ** n for n in range(1, SWEEP_MAXLEN + 1))
    return n_hist * len(SWEEP_CONFIGS) * len(SWEEP_REPRS)


def sweep_plan(index: int) -> dict:
    """index -> (representation, configuration, history): a complete enumeration of all loss histories of length
    1..6 over a 4-letter ordered alphabet x 16 patience configurations x 3 scalar representations."""
    n_hist = sum(len(SWEEP_LETTERS) ** n for n in range(1, SWEEP_MAXLEN + 1))
    rep = SWEEP_REPRS[index % len(SWEEP_REPRS)]
    index //= len(SWEEP_REPRS)
    cfg = SWEEP_CONFIGS[index % len(SWEEP_CONFIGS)]
    h = (index // len(SWEEP_CONFIGS)) % n_hist
    n = 1
    while h >= len(SWEEP_LETTERS) ** n:
        h -= len(SWEEP_LETTERS) ** n
        n += 1
    hist = []
    for _ in range(n):
        hist.append(SWEEP_LETTERS[h % len(SWEEP_LETTERS)])
        h //= len(SWEEP_LETTERS)
    other = [SWEEP_LETTERS[(x * 7 + 3) % 4] for x in range(n)]  # the un-monitored loss: unrelated values
    train, val = (hist, other) if cfg["kind"] == "TrainLoss" else (other, hist)
    return {"mode": "direct", "cond": dict(cfg), "train": train, "val": val, "reprs": [rep] * n, "etimes": [1.0] * (n + 1)}


def gen_plan(rng, profile: dict, seed: int) -> dict:
    mode = profile["mode"]
    if mode == "sweep":
        return sweep_plan(int(profile["_index"]))
    cond = _gen_cond(rng)
    special = rng.random() < 0.25
    long_run = cond["kind"] != "EpochStop" and mode == "direct" and rng.random() < 0.012
    if long_run:
        # a history that is still improving after more than a thousand epochs (a hidden epoch cap, a counter that wraps,
        # a window that is only so long): strict micro-descent, then a plateau that must end the run at patience+1
        cond["min_delta"] = 0
        cond["verbose"] = 0
    if mode == "direct":
        n = rng.randint(1, 24)
        train = _letters(rng, n, special)
        if long_run:
            n_desc = rng.choice([1005, 1030, 1500, 2100])
            n = n_desc + cond["patience"] + 1
            train = [f"m{j}" for j in range(n_desc)] + [f"m{n_desc - 1}"] * (cond["patience"] + 1)
            special = False
        has_val = cond["kind"] == "ValLoss" or rng.random() < 0.5
        val = _letters(rng, n, special) if has_val else None
        if long_run and has_val:
            val = list(train)
        rep_style = rng.choice(REPRS + ["mixed", "mixed"])
        reprs = [rng.choice(REPRS) if rep_style == "mixed" else rep_style for _ in range(n)]
        etimes = [rng.choice([0.0, 12.5, -3.0, 1e7]) for _ in range(n + 1)]
        return {"mode": mode, "cond": cond, "train": train, "val": val, "reprs": reprs, "etimes": etimes}
    if mode == "loop" and rng.random() < 0.04:
        # the same patience condition object handed to two consecutive train() calls (a benchmark loop sharing one object)
        ndev = rng.choice([1, 1, 2])
        B = ndev * rng.choice([1, 2])
        return {"mode": "reuse", "cond": {"kind": rng.choice(["TrainLoss", "ValLoss"]), "patience": rng.randint(0, 2), "min_delta": 0, "verbose": 0},
                "ndev": ndev, "B": B, "L": B * rng.choice([1, 2]), "Lval": B, "key": rng.getrandbits(31), "first_low": rng.random() < 0.8}
    if mode == "loop":
        nb = rng.choice([1, 1, 2, 4])  # batches per epoch (power of two keeps epoch means dyadic)
        ndev = rng.choice([1, 1, 2, 4])
        per_dev = rng.choice([1, 2])
        B = ndev * per_dev
        L = nb * B + rng.choice([0, 0, 1]) * rng.randint(0, B - 1) if B > 1 else nb * B
        n = rng.randint(1, 24)
        train = _letters(rng, n, special)
        has_val = cond["kind"] == "ValLoss" or rng.random() < 0.4
        val = _letters(rng, n, special) if has_val else None
        Lval = (B * rng.choice([1, 2]) + (rng.randint(0, B - 1) if rng.random() < 0.5 else 0)) if has_val else 0
        return {
            "mode": mode,
            "cond": cond,
            "train": train,
            "val": val,
            "nb": nb,
            "ndev": ndev,
            "B": B,
            "L": L,
            "Lval": Lval,
            "key": rng.getrandbits(31),
            "clock": _gen_clock(rng, 2 * n + 8),
            "wandb": rng.random() < 0.3,
            "save": rng.random() < 0.3,
            # hard faults in the environment: the unchanged loop lets the exception escape (then nothing more is
            # claimed for the run); a loop that survives the fault must still satisfy every clause
            "wandb_fail": rng.choice([None, None, {"at": rng.randint(1, 12), "kind": rng.choice(["raise", "slow"])}]),
            "disk_fail": rng.choice([None, None, {"at": rng.randint(1, 8), "kind": rng.choice(["enospc", "eio", "short"])}]),
        }
    if mode == "real":
        ndev = rng.choice([1, 2])
        B = ndev * rng.choice([1, 2])
        nb = rng.choice([1, 2])
        cond = _gen_cond(rng)
        if cond["kind"] == "EpochStop":
            cond["epochs"] = rng.randint(1, 6)
        opt = rng.choice(["zero", "zero", "sgd", "adam"])
        if opt == "zero" and cond["kind"] != "EpochStop":
            cond["min_delta"] = rng.choice([8, 64])  # >0: the constant history is non-improving
        return {
            "mode": mode,
            "cond": cond,
            "opt": opt,
            "lr": rng.choice([1e-3, 1e-2]),
            "ndev": ndev,
            "B": B,
            "L": nb * B,
            "Lval": B,
            "key": rng.getrandbits(31),
            "data_key": rng.getrandbits(31),
            "model_key": rng.getrandbits(31),
            "cap": 14,
        }
    raise ValueError(mode)


def plan_size(plan: dict) -> int:
    return len(plan.get("train") or []) + (plan.get("cap", 0) if plan["mode"] == "real" else 0)


# --------------------------------------------------------------------------- context
def setup(job: dict, widx: int) -> dict:
    ctx: dict[str, Any] = {"datasets": {}, "real": {}}
    return ctx


def _dataset(ctx, L: int, flag: float):
    key = (L, flag)
    if key not in ctx["datasets"]:
        X = geom.MultiImage({(0, 0): jnp.zeros((L, 1, 2, 2), dtype=jnp.float32)}, 2)
        Y = geom.MultiImage({(0, 0): jnp.full((L, 1, 2, 2), flag, dtype=jnp.float32)}, 2)
        ctx["datasets"][key] = (X, Y)
    return ctx["datasets"][key]


class _Token:
    def __init__(self, e):
        self.e = e


# --------------------------------------------------------------------------- instrumentation
def instrument(cond, hook):
    base = type(cond)

    class Instrumented(base):  # keeps isinstance(cond, ValLoss) true for train()'s own check
        def stop(self, model, current_epoch, train_loss, val_loss, epoch_time):
            r = base.stop(self, model, current_epoch, train_loss, val_loss, epoch_time)
            hook(self, model, current_epoch, train_loss, val_loss, epoch_time, r)
            return r

    cond.__class__ = Instrumented
    return cond


def _f(x) -> Optional[float]:
    return None if x is None else float(x)


# --------------------------------------------------------------------------- execution
def execute(plan: dict, ctx: dict) -> dict:
    world = World(plan.get("seed", 0))
    world.log.add("plan", {k: v for k, v in plan.items() if k not in ("profile",)})
    violations: list[dict] = []
    counters: dict[str, int] = {}
    evals = 0
    states_seen: set = set()

    def bump(k, n=1):
        counters[k] = counters.get(k, 0) + n

    def viol(clause, detail, site):
        violations.append(Violation(PROP, clause, detail, site).to_json())

    mode = plan["mode"]
    c = plan["cond"]
    site = c["kind"]
    try:
        if mode == "direct":
            evals = _exec_direct(plan, world, viol, bump, states_seen)
        elif mode == "loop":
            evals = _exec_loop(plan, ctx, world, viol, bump, states_seen)
        elif mode == "reuse":
            evals = _exec_reuse(plan, ctx, world, viol, bump)
        else:
            evals = _exec_real(plan, ctx, world, viol, bump, states_seen)
    finally:
        world.uninstall()
    kinds = list(world.log.kinds)
    shape = shape_hash(
        [mode, c["kind"], str(c.get("patience")), str(c.get("min_delta")), str(plan.get("nb")), str(plan.get("ndev"))]
        + [str(s) for s in sorted(states_seen)]
        + sorted(set(plan.get("reprs", [])))
    )
    for k, v in world.faults.items():
        pass
    return {
        "digest": world.log.digest(),
        "evaluations": evals,
        "counters": counters,
        "faults": dict(world.faults),
        "shape": shape,
        "nontrivial": evals >= 2,
        "violations": violations,
        "sim_time_s": world.clock.covered,
        "trace_head": world.log.head,
    }


def _exec_direct(plan, world, viol, bump, states_seen) -> int:
    c = plan["cond"]
    cond = make_cond(c)
    train = [code_to_float(x) for x in plan["train"]]
    val = [code_to_float(x) for x in plan["val"]] if plan["val"] is not None else None
    n = len(train)
    site = f"{c['kind']}/direct"
    tokens = [_Token(e) for e in range(n + 1)]
    evals = 0
    with capture_stdout() as out:
        try:
            r0 = cond.stop(tokens[0], 0, None, None, plan["etimes"][0])
        except Exception as e:
            viol("raises", f"epoch 0: {type(e).__name__}: {e}", site)
            return 1
        decisions_ref: list[bool]
        if c["kind"] == "EpochStop":
            decisions_ref = [e >= c["epochs"] for e in range(1, n + 1)]
            best_ref = list(range(1, n + 1))
            states = [(e,) for e in range(1, n + 1)]
            first_dec_ref = 0 >= c["epochs"]
        else:
            mon = train if c["kind"] == "TrainLoss" else val
            decisions_ref, best_ref, states = ref_patience(mon, c["patience"], c["min_delta"] / 64.0)
            first_dec_ref = False
        if bool(r0) != first_dec_ref:
            viol("decision", {"epoch": 0, "got": bool(r0), "want": first_dec_ref}, site)
        for e in range(1, n + 1):
            how = plan["reprs"][e - 1]
            tl = represent(train[e - 1], how)
            vl = represent(val[e - 1], how) if val is not None else None
            try:
                r = cond.stop(tokens[e], e, tl, vl, plan["etimes"][e])
            except Exception as ex:
                viol("raises", f"epoch {e} repr {how}: {type(ex).__name__}: {ex}", f"{site}/{how}")
                break
            evals += 1
            bump("repr_" + how)
            states_seen.add(states[e - 1])
            want = decisions_ref[e - 1]
            if bool(r) != want:
                clause = "stops_early" if (bool(r) and not want) else "fails_to_stop"
                viol(
                    clause,
                    {"epoch": e, "got": bool(r), "want": want, "history": plan["train" if c["kind"] != "ValLoss" else "val"][:e], "repr": how},
                    f"{site}/{how}",
                )
                break
            # best model handed back so far
            bm = cond.best_model
            want_e = best_ref[e - 1]
            got_e = bm.e if isinstance(bm, _Token) else None
            if want_e == 0:
                bump("no_improvement_yet")
            elif got_e != want_e:
                viol("best_model", {"epoch": e, "got_epoch": got_e, "want_epoch": want_e, "repr": how}, f"{site}/{how}")
                break
            if want:
                bump("stopped")
                break
    world.log.add("stdout", out.getvalue())
    return evals


class _LoopHook:
    def __init__(self, plan, world, viol, bump, states_seen, nb, train_ep, val_ep, budget):
        self.plan, self.world, self.viol, self.bump = plan, world, viol, bump
        self.states_seen = states_seen
        self.nb = nb
        self.train_ep, self.val_ep = train_ep, val_ep
        self.calls = 0
        self.budget = budget
        self.observed: list[tuple] = []
        self.model_steps: list = []
        self.decisions: list[bool] = []
        self.types: set = set()

    def __call__(self, cond, model, epoch, tl, vl, et, r):
        self.world.seam("stop")
        self.calls += 1
        self.observed.append((epoch, _f(tl), _f(vl), float(et)))
        try:
            self.model_steps.append(int(np.asarray(model.t)))
        except Exception:
            self.model_steps.append(None)
        self.decisions.append(bool(r))
        if tl is not None:
            self.types.add(type(tl).__name__)
        self.world.log.add("stop", [epoch, _f(tl), _f(vl), bool(r)])
        if self.calls > self.budget and not r:
            raise StepBudgetExceeded(f"{self.calls} stop calls, reference stops by {self.budget - 3}")


def _epoch_means(ts: list[float], nb: int, n_epochs: int) -> list[float]:
    """Epoch loss the loop computes from the per-step table ts (length S_MAX): float32 sum of the
    nb step losses of the epoch, divided by nb (nb is a power of two, values are dyadic: exact)."""
    out = []
    for e in range(n_epochs):
        s = np.float32(0.0)
        for j in range(nb):
            s = np.float32(s + np.float32(ts[min(e * nb + j, S_MAX - 1)]))
        out.append(float(np.float32(s / np.float32(nb))))
    return out


def _exec_reuse(plan, ctx, world, viol, bump) -> int:
    """Two consecutive train() calls sharing one patience condition object. Whatever the carried-over counters do to the
    *moment* the second call stops (the statement speaks about one history), two things are decidable and sound: the
    second call terminates on a non-improving history, and the model it returns descends from the model it was given -
    never from the model of the earlier call."""
    c = plan["cond"]
    ndev, B, L = plan["ndev"], plan["B"], plan["L"]
    site = f"{c['kind']}/reuse"
    cond = make_cond(c)
    calls = {"n": 0}
    cap = c["patience"] + 8

    def hook(self, model, current_epoch, train_loss, val_loss, epoch_time, r):
        calls["n"] += 1
        if calls["n"] > cap and not r:
            raise StepBudgetExceeded(f"{calls['n']} stop calls")

    cond = instrument(cond, hook)
    X, Y = _dataset(ctx, L, 0.0)
    VX, VY = _dataset(ctx, plan["Lval"], 1.0)
    lo, hi = (0.125, 1.0) if plan["first_low"] else (1.0, 0.125)
    total = 0
    with world, capture_stdout() as out:
        for which, level in (("first", lo), ("second", hi)):
            calls["n"] = 0
            model = ScriptModel([level] * S_MAX, [level] * S_MAX)
            try:
                res = training.train(X, Y, script_map_and_loss, model, jax.random.PRNGKey(plan["key"]), cond, B, counting_optimizer(world),
                                     validation_X=VX, validation_Y=VY, devices=devices(ndev))
            except StepBudgetExceeded:
                viol("no_termination", {"call": which, "stop_calls": calls["n"], "constant_loss": level}, f"{site}/{which}")
                break
            except Exception as e:
                viol("raises", f"{which}: {type(e).__name__}: {e}", site)
                break
            total += calls["n"]
            got = res[0]
            tag = None if got is None or not hasattr(got, "train_script") else float(np.asarray(got.train_script)[0])
            bump("reuse_calls")
            if tag != level:
                viol("returned_model_not_from_this_call", {"call": which, "returned_model_loss_level": tag, "this_call_loss_level": level}, f"{site}/{which}")
                break
    world.log.add("stdout", out.getvalue())
    return total


def _exec_loop(plan, ctx, world, viol, bump, states_seen) -> int:
    c = plan["cond"]
    nb, ndev, B, L = plan["nb"], plan["ndev"], plan["B"], plan["L"]
    train_steps = [code_to_float(x) for x in plan["train"]][:S_MAX]
    val_steps = [code_to_float(x) for x in plan["val"]][:S_MAX] if plan["val"] is not None else None
    ts = train_steps + [train_steps[-1]] * (S_MAX - len(train_steps))
    vs = (val_steps + [val_steps[-1]] * (S_MAX - len(val_steps))) if val_steps is not None else [0.0] * S_MAX
    site = f"{c['kind']}/loop"
    horizon = S_MAX // nb + 8
    # reference histories, per epoch
    train_ep = _epoch_means(ts, nb, horizon)
    # validation loss after epoch e is evaluated with the model after e*nb steps
    val_ep = [float(np.float32(vs[min(e * nb, S_MAX - 1)])) for e in range(1, horizon + 1)]
    if c["kind"] == "EpochStop":
        ref_stop = c["epochs"]
        ref_best = c["epochs"]
        dec_ref = [e >= c["epochs"] for e in range(1, horizon + 1)]
    else:
        mon = train_ep if c["kind"] == "TrainLoss" else val_ep
        dec_ref, best_ref, states = ref_patience(mon, c["patience"], c["min_delta"] / 64.0)
        ref_stop = dec_ref.index(True) + 1 if True in dec_ref else None
        if ref_stop is None:
            raise AssertionError("reference never stops on a clamped script: harness bug")
        ref_best = best_ref[ref_stop - 1]
        for s in states[:ref_stop]:
            states_seen.add(s)
    hook = _LoopHook(plan, world, viol, bump, states_seen, nb, train_ep, val_ep, budget=ref_stop + 1 + 3)
    cond = instrument(make_cond(c), hook)
    model = ScriptModel(ts, vs)
    X, Y = _dataset(ctx, L, 0.0)
    VX, VY = _dataset(ctx, plan["Lval"], 1.0) if val_steps is not None else (None, None)
    world.clock.plan = list(plan["clock"])
    if plan.get("clock"):
        pass
    evals = 0
    result = None
    aborted_by_fault = False
    wf, df = plan.get("wandb_fail"), plan.get("disk_fail")
    if wf and plan.get("wandb"):
        world.wandb.fail_at = {wf["at"]: wf["kind"]}
    if df and plan.get("save"):
        world.disk.write_faults = {df["at"]: df["kind"]}

    def hard_faults():
        return world.faults.get("net_error", 0) + world.faults.get("disk_enospc", 0) + world.faults.get("disk_eio", 0)

    with world, capture_stdout() as out:
        try:
            result = training.train(
                X,
                Y,
                script_map_and_loss,
                model,
                jax.random.PRNGKey(plan["key"]),
                cond,
                B,
                counting_optimizer(world),
                validation_X=VX,
                validation_Y=VY,
                save_model="ckpt.eqx" if plan.get("save") else None,
                devices=devices(ndev),
                is_wandb=bool(plan.get("wandb")),
            )
        except StepBudgetExceeded as e:
            viol(
                "no_termination",
                {"stop_calls": hook.calls, "reference_stop_epoch": ref_stop, "loss_type_seen": sorted(hook.types), "observed_tail": hook.observed[-4:]},
                f"{site}/{'+'.join(sorted(hook.types))}",
            )
        except Exception as e:
            if hard_faults() > 0:
                aborted_by_fault = True  # the injected error escaped the loop: legitimate, nothing more is claimed
                bump("aborted_by_injected_fault")
            else:
                viol("raises", f"{type(e).__name__}: {e}", site)
    world.log.add("stdout", out.getvalue())
    evals = hook.calls
    bump("loop_epochs", max(0, hook.calls - 1))
    if hard_faults() > 0 and not aborted_by_fault:
        bump("survived_injected_fault")
    for t in hook.types:
        bump("loss_type_" + t)
    # the history the loop actually supplied to the condition; normally the scripted one. If the loop supplies
    # something else (the statement does not define the epoch loss), the reference automaton is fed with what
    # was supplied, as in the real-model batch, and the fact is counted.
    obs_train = [o[1] for o in hook.observed[1:]]
    obs_val = [o[2] for o in hook.observed[1:]]
    # the model and the validation loss handed to stop() must belong together: in the scripted world the validation
    # loss of a model is a function of its step counter ("the model they hand back is the one from the epoch that
    # achieved that best loss" is only meaningful if each loss is the loss of the model it arrives with)
    if val_steps is not None:
        for (epoch, tl, vl, et), tstep in zip(hook.observed[1:], hook.model_steps[1:]):
            if vl is None or tstep is None:
                continue
            want_v = float(np.float32(vs[min(tstep, S_MAX - 1)]))
            if not (vl == want_v or (math.isnan(vl) and math.isnan(want_v))):
                viol("val_loss_not_of_passed_model", {"epoch": epoch, "model_step": tstep, "val_loss_passed": vl, "val_loss_of_that_model": want_v}, site + "/stop_arguments")
                break

    def _same(a, b):
        return a == b or (a is not None and b is not None and math.isnan(a) and math.isnan(b))

    script_ok = all(_same(t, train_ep[i]) for i, t in enumerate(obs_train)) and (
        val_steps is None or all(_same(v, val_ep[i]) for i, v in enumerate(obs_val))
    )
    if not script_ok:
        bump("loop_supplied_other_history_than_scripted")
        if c["kind"] != "EpochStop" and obs_train:
            mon = obs_train if c["kind"] == "TrainLoss" else obs_val
            ext = list(mon) + [mon[-1]] * 8
            dec_ref, best_ref, _states = ref_patience(ext, c["patience"], c["min_delta"] / 64.0)
            ref_stop = dec_ref.index(True) + 1 if True in dec_ref else len(ext) + 1
            ref_best = best_ref[min(ref_stop, len(best_ref)) - 1]
    # decisions, epoch by epoch, against the reference ("never earlier", and at the first such epoch)
    decisions_ok = True
    for (epoch, tl, vl, et), r in zip(hook.observed, hook.decisions):
        if epoch == 0:
            want = (0 >= c["epochs"]) if c["kind"] == "EpochStop" else False
        else:
            want = dec_ref[epoch - 1]
        if r != want:
            clause = "stops_early" if (r and not want) else "fails_to_stop"
            viol(clause, {"epoch": epoch, "got": r, "want": want, "train": obs_train[:epoch], "val": obs_val[:epoch] if val_steps is not None else None}, site)
            decisions_ok = False
            break
    if result is not None and decisions_ok:
        best_model, _aux, last_train, last_val = result
        got_t = int(np.asarray(best_model.t))
        stopped_at = hook.observed[-1][0]
        bump("terminated")
        # the loop may only end because the condition said so, at the reference epoch: a loop that returns
        # without a final stop()==True decision (e.g. an early `break`) stopped earlier than specified
        if not hook.decisions[-1] or stopped_at != ref_stop:
            viol(
                "stops_early" if stopped_at < ref_stop else "fails_to_stop",
                {"loop_returned_after_epoch": stopped_at, "last_stop_decision": hook.decisions[-1], "reference_stop_epoch": ref_stop,
                 "train": train_ep[: stopped_at + 1], "val": val_ep[: stopped_at + 1] if val_steps is not None else None},
                site + "/loop_exit",
            )
        if stopped_at == ref_stop:
            want_t = ref_best * nb
            if c["kind"] != "EpochStop" and ref_best == 0:
                bump("never_improved")
            elif got_t != want_t:
                viol(
                    "best_model",
                    {"returned_model_step": got_t, "want_step": want_t, "best_epoch": ref_best, "stop_epoch": ref_stop, "nb": nb},
                    site,
                )
        if plan.get("clock"):
            bump("clock_faulted_runs")
    return evals


# --------------------------------------------------------------------------- real tiny model
def _real_ctx(ctx):
    if "bank" not in ctx["real"]:
        D = 2
        ops = geom.make_all_operators(D)
        bank = geom.get_invariant_filters([3], [0, 1, 2], [0, 1], D, ops)
        ctx["real"]["bank"] = bank
    return ctx["real"]


def real_map_and_loss(model, x, y, aux_data):
    out, aux_data = jax.vmap(model, in_axes=(0, None), out_axes=(0, None))(x, aux_data)
    return ml.smse_loss(out, y), aux_data


def _exec_real(plan, ctx, world, viol, bump, states_seen) -> int:
    c = plan["cond"]
    rc = _real_ctx(ctx)
    D = 2
    sig = geom.Signature((((0, 0), 1), ((1, 0), 1)))
    model = models.ConvBlock(D, sig, sig, conv_filters=rc["bank"], key=jax.random.PRNGKey(plan["model_key"]))
    k1, k2, k3, k4 = jax.random.split(jax.random.PRNGKey(plan["data_key"]), 4)

    def mk(key, L):
        ka, kb = jax.random.split(key)
        return geom.MultiImage(
            {(0, 0): jax.random.normal(ka, (L, 1, 4, 4)), (1, 0): jax.random.normal(kb, (L, 1, 4, 4, 2))}, D
        )

    X, Y = mk(k1, plan["L"]), mk(k2, plan["L"])
    VX, VY = mk(k3, plan["Lval"]), mk(k4, plan["Lval"])
    opt = {"zero": optax.set_to_zero(), "sgd": optax.sgd(plan["lr"]), "adam": optax.adam(plan["lr"])}[plan["opt"]]
    site = f"{c['kind']}/real/{plan['opt']}"
    cap = plan["cap"]
    hook = _LoopHook(plan, world, viol, bump, states_seen, 1, [], [], budget=10**9)
    hook.budget = cap
    cond = instrument(make_cond(c), hook)
    result = None
    timed_out = False
    with world, capture_stdout() as out:
        try:
            result = training.train(
                X, Y, real_map_and_loss, model, jax.random.PRNGKey(plan["key"]), cond, plan["B"], opt,
                validation_X=VX, validation_Y=VY, devices=devices(plan["ndev"]),
            )
        except StepBudgetExceeded:
            timed_out = True
        except Exception as e:
            viol("raises", f"{type(e).__name__}: {e}", site)
    world.log.add("stdout", out.getvalue())
    obs = hook.observed
    # reference automaton on the losses the loop itself observed
    if c["kind"] == "EpochStop":
        dec_ref = [e >= c["epochs"] for e in range(1, len(obs) + 1)]
    else:
        mon = [o[1] if c["kind"] == "TrainLoss" else o[2] for o in obs[1:]]
        dec_ref, best_ref, states = ref_patience(mon, c["patience"], c["min_delta"] / 64.0)
        for s in states:
            states_seen.add(s)
    for i, (o, r) in enumerate(zip(obs[1:], hook.decisions[1:])):
        want = dec_ref[i]
        if r != want:
            clause = "stops_early" if (r and not want) else "fails_to_stop"
            viol(clause, {"epoch": o[0], "got": r, "want": want, "observed": [x[1:3] for x in obs[1 : i + 2]], "loss_type": sorted(hook.types)}, site + "/" + "+".join(sorted(hook.types)))
            break
    if timed_out and not any(dec_ref[: len(obs) - 1]):
        # the reference would not have stopped either within the cap: not a liveness violation
        bump("cap_reached_legitimately")
    elif timed_out:
        pass  # already reported as fails_to_stop above
    if plan["opt"] == "zero" and c["kind"] != "EpochStop":
        # parameters never move, min_delta>0: history is constant -> must stop at epoch patience+2
        want_stop = c["patience"] + 2
        stopped = (not timed_out) and result is not None
        if not stopped or obs[-1][0] != want_stop:
            viol(
                "no_termination" if not stopped else "stop_epoch",
                {"constant_history": True, "want_stop_epoch": want_stop, "stopped": stopped, "last_epoch": obs[-1][0] if obs else None, "loss_type": sorted(hook.types)},
                site + "/" + "+".join(sorted(hook.types)),
            )
        bump("constant_history_runs")
    if result is not None:
        bump("terminated")
        if not hook.decisions[-1]:
            viol("stops_early", {"loop_returned_after_epoch": obs[-1][0], "last_stop_decision": False, "observed": [x[1:3] for x in obs[1:]]}, site + "/loop_exit")
    for t in hook.types:
        bump("loss_type_" + t)
    return hook.calls


# --------------------------------------------------------------------------- shrinking
def shrink(plan: dict, fails) -> dict:
    p = dict(plan)
    mode = p["mode"]

    def attempt(q):
        try:
            return fails(q)
        except AssertionError:
            return False

    if mode in ("direct", "loop"):
        n = len(p["train"])
        idx = list(range(n))

        def with_idx(ix):
            q = dict(p)
            q["train"] = [p["train"][i] for i in ix]
            if p.get("val") is not None:
                q["val"] = [p["val"][i] for i in ix]
            if mode == "direct":
                q["reprs"] = [p["reprs"][i] for i in ix]
                q["etimes"] = [p["etimes"][0]] + [p["etimes"][i + 1] for i in ix]
            return q

        keep = ddmin(idx, lambda ix: len(ix) > 0 and attempt(with_idx(ix)), max_tests=120)
        p = with_idx(keep)
        simpl = []
        if mode == "loop":
            simpl += [("nb", 1), ("ndev", 1), ("clock", []), ("wandb", False), ("save", False)]
        for k, v in simpl:
            q = dict(p)
            q[k] = v
            if k in ("nb", "ndev"):
                q["B"] = q["ndev"] * max(1, p["B"] // p["ndev"])
                q["L"] = q["nb"] * q["B"]
                if q.get("Lval"):
                    q["Lval"] = q["B"]
            if q != p and attempt(q):
                p = q
        for k, vals in (("patience", [0, 1]), ("min_delta", [0]), ("verbose", [0])):
            for v in vals:
                if k in p["cond"] and p["cond"][k] != v:
                    q = dict(p)
                    q["cond"] = dict(p["cond"])
                    q["cond"][k] = v
                    if attempt(q):
                        p = q
                        break
    else:
        for k, v in (("ndev", 1), ("cap", 8)):
            q = dict(p)
            q[k] = v
            if k == "ndev":
                q["B"] = max(1, p["B"] // p["ndev"])
                q["L"] = q["B"] * max(1, p["L"] // p["B"])
                q["Lval"] = q["B"]
            if q != p and attempt(q):
                p = q
    return p
