"""E2-batch: mini-batching as an aligned partition (C17).

direct : ml.get_batches called with drawn (L, B, key|None, device list, 1-3 co-batched multi-images with
         different type sets and insertion orders, operands optionally crossing a trace boundary first).
train  : the real ml.train (and map_loss_in_batches for validation) over several epochs inside the
         simulated world; a recording seam around the real get_batches sees every call the loop makes,
         and the loss computed *inside pmap* is sum|x_index - y_index| so mis-pairing shows in situ.

Every sample i carries the value 64*i + 8*(2k+p) + channel in every component of type (k,p), so the index tensor
of every delivered block is recovered exactly.
"""
from __future__ import annotations

from typing import Any, Optional

import numpy as np
import jax
import jax.numpy as jnp
import equinox as eqx
import optax

import ginjax.geometric as geom
import ginjax.ml as ml
import ginjax.models as models
import ginjax.ml.training as training

from ..core import Violation, shape_hash
from ..world import World
from .common import capture_stdout, devices

PROP = "C17"
TYPES = [(0, 0), (0, 1), (1, 0), (1, 1), (2, 0)]
_JIT_ID = jax.jit(lambda m: m)


def make_mi(spec: list, L: int, D: int, spatial: tuple, is_torus: bool, offset: int = 0):
    """spec: [[k,p,c],...] in insertion order. value(sample i, type (k,p), channel c) = 64*(i+offset) + 8*(2k+p) + c,
    so a row is attributable to its sample, its tensor type and its channel."""
    data = {}
    for k, p, c in spec:
        base = (64.0 * (np.arange(L) + offset))[:, None] + 8.0 * (2 * k + p) + np.arange(c)[None, :]
        blk = np.broadcast_to(base.reshape((L, c) + (1,) * (D + k)), (L, c) + tuple(spatial) + (D,) * k)
        data[(k, p)] = jnp.asarray(np.ascontiguousarray(blk), dtype=jnp.float32)
    return geom.MultiImage(data, D, is_torus)


def gen_spec(rng, D: int) -> list:
    pool = [t for t in TYPES if not (D == 3 and t[0] == 2)]
    types = rng.sample(pool, rng.randint(1, 3))
    return [[k, p, rng.randint(1, 3)] for k, p in types]


def gen_plan(rng, profile: dict, seed: int) -> dict:
    mode = profile["mode"]
    D = rng.choice([2, 2, 3])
    spatial = [2] * D if rng.random() < 0.7 else ([1, 2] if D == 2 else [1, 2, 1])
    ndev = rng.choice([1, 1, 2, 4])
    per = rng.randint(1, 4)
    B = ndev * per
    if mode == "direct" and rng.random() < 0.04:
        # tuning-knob blind spot: blocks large enough (>= 2^17 elements) to cross size thresholds in gather paths
        return {
            "mode": mode, "D": 2, "spatial": [32, 32], "L": 64, "B": 16, "ndev": rng.choice([1, 2]),
            "specs": [[[1, 0, 1], [0, 0, 1]], [[0, 0, 1]]], "key": rng.getrandbits(31), "pre_transport": ["none", "none"],
            "as_single": False, "is_torus": True,
        }
    if mode == "direct":
        L = rng.randint(B, min(64, max(B, B * rng.randint(1, 6) + rng.randint(0, B - 1))))
        n_mi = rng.randint(1, 3)
        return {
            "mode": mode, "D": D, "spatial": spatial, "L": L, "B": B, "ndev": ndev,
            "specs": [gen_spec(rng, D) for _ in range(n_mi)],
            "key": None if rng.random() < 0.25 else rng.getrandbits(31),
            "pre_transport": [rng.choice(["none", "none", "jit", "tree"]) for _ in range(n_mi)],
            "as_single": n_mi == 1 and rng.random() < 0.5,
            "is_torus": rng.random() < 0.5,
            "mutate_and_repeat": rng.random() < 0.3,
            "devices_default": ndev == 4 and rng.random() < 0.5,  # devices=None means every visible device (4 here)
        }
    nb = rng.randint(1, 4)
    L = nb * B + rng.randint(0, B - 1)
    Lval = B * rng.randint(1, 2) + rng.randint(0, B - 1)
    return {
        "mode": mode, "D": D, "spatial": spatial, "L": L, "B": B, "ndev": ndev,
        "spec_x": gen_spec(rng, D), "spec_y": gen_spec(rng, D),
        "epochs": rng.randint(1, 6), "key": rng.getrandbits(31),
        "val": rng.random() < 0.5, "Lval": Lval, "is_torus": rng.random() < 0.5,
        # a transient failure of one training step (the unchanged loop lets it escape; a loop that retries must still
        # deliver every sample at most once per epoch, with inputs and targets aligned)
        "step_fault_at": rng.choice([None, None, None, rng.randint(2, 12)]),
    }


def plan_size(plan: dict) -> int:
    return plan["L"] + plan.get("epochs", 0)


def setup(job: dict, widx: int) -> dict:
    return {}


# --------------------------------------------------------------------------- oracle on one call
def index_tensor(blk: np.ndarray, c: int, lead: int, tcode: int = 0) -> Optional[np.ndarray]:
    """blk shape lead-axes + (c, spatial, tensor). Returns sample index per leading position or None
    if the block is not constant per sample / channels or types were disturbed."""
    x = np.asarray(blk)
    chan = np.arange(c).reshape((1,) * lead + (c,) + (1,) * (x.ndim - lead - 1))
    idx = x - chan - 8.0 * tcode
    flat = idx.reshape(idx.shape[:lead] + (-1,))
    if not np.all(flat == flat[..., :1]):
        return None
    v = flat[..., 0]
    if not np.all(v % 64 == 0):
        return None
    return (v // 64).astype(np.int64)


def check_call(mis, specs, L, B, key_is_none, ndev, out, viol, site, bump, identity=None) -> Optional[list]:
    """Returns the list of flat index arrays per batch, or None after reporting a violation."""
    nbatches = L // B
    if len(out) != len(mis):
        viol("structure", {"lists": len(out), "multi_images": len(mis)}, site)
        return None
    per_batch: list = [None] * nbatches
    for j, (mi, spec, lst) in enumerate(zip(mis, specs, out)):
        if len(lst) != nbatches:
            viol("batch_count", {"multi_image": j, "got": len(lst), "want": nbatches, "L": L, "B": B}, site)
            return None
        for bi, b in enumerate(lst):
            if set(b.keys()) != {(k, p) for k, p, _ in spec} or b.D != mi.D or tuple(b.is_torus) != tuple(mi.is_torus):
                viol("types_or_flags", {"multi_image": j, "batch": bi, "keys": sorted(b.keys())}, site)
                return None
            for k, p, c in spec:
                blk = np.asarray(b[(k, p)])
                want_shape = (ndev, B // ndev, c) + tuple(mi[(k, p)].shape[2:])
                if blk.shape != want_shape:
                    viol("shape", {"multi_image": j, "batch": bi, "type": [k, p], "got": list(blk.shape), "want": list(want_shape)}, site)
                    return None
                idx = index_tensor(blk, c, 2, 2 * k + p)
                if idx is None:
                    viol("sample_integrity", {"multi_image": j, "batch": bi, "type": [k, p]}, site)
                    return None
                if per_batch[bi] is None:
                    per_batch[bi] = idx
                elif not np.array_equal(per_batch[bi], idx):
                    viol(
                        "alignment",
                        {"batch": bi, "multi_image": j, "type": [k, p], "indices": idx.tolist(), "first_block_indices": per_batch[bi].tolist()},
                        site,
                    )
                    return None
    flat = [pb.reshape(-1) for pb in per_batch]
    allidx = np.concatenate(flat) if flat else np.zeros(0, dtype=np.int64)
    if len(set(allidx.tolist())) != len(allidx):
        viol("index_twice", {"indices": allidx.tolist()}, site)
        return None
    if len(allidx) and (allidx.min() < 0 or allidx.max() >= L):
        viol("index_range", {"indices": allidx.tolist(), "L": L}, site)
        return None
    if key_is_none and not np.array_equal(allidx, (np.arange(L) if identity is None else np.asarray(identity))[: nbatches * B]):
        viol("identity_order", {"indices": allidx.tolist()}, site)
        return None
    bump("calls_checked")
    bump("batches_checked", nbatches)
    return flat


# --------------------------------------------------------------------------- execution
class PairModel(models.MultiImageModule):
    w: jax.Array

    def __init__(self):
        self.w = jnp.zeros(())

    def __call__(self, x, aux_data=None):
        return x, aux_data


def pair_map_and_loss(model, x, y, aux_data):
    """sum over the batch of |index carried by x - index carried by y|, recovered from the first
    channel of the first type of each (value = 8*i + channel)."""
    xi = jnp.floor(next(iter(x.values())).reshape((x.get_L(), -1))[:, 0] / 64.0)
    yi = jnp.floor(next(iter(y.values())).reshape((y.get_L(), -1))[:, 0] / 64.0)
    return jnp.sum(jnp.abs(xi - yi)) + 0.0 * model.w, aux_data


def execute(plan: dict, ctx: dict) -> dict:
    world = World(plan.get("seed", 0))
    world.log.add("plan", {k: v for k, v in plan.items() if k != "profile"})
    violations: list[dict] = []
    counters: dict[str, int] = {}
    evals = 0

    def bump(k, n=1):
        counters[k] = counters.get(k, 0) + n

    def viol(clause, detail, site):
        violations.append(Violation(PROP, clause, detail, site).to_json())

    D, L, B, ndev = plan["D"], plan["L"], plan["B"], plan["ndev"]
    sp = tuple(plan["spatial"])
    kinds = [plan["mode"], f"n{ndev}", "div" if L % B == 0 else "nondiv"]
    if plan["mode"] == "direct":
        site = f"direct/n{ndev}/{'nokey' if plan['key'] is None else 'key'}"
        mis = []
        for spec, tr in zip(plan["specs"], plan["pre_transport"]):
            m = make_mi(spec, L, D, sp, plan["is_torus"])
            if tr == "jit":
                m = _JIT_ID(m)
            elif tr == "tree":
                lv, td = jax.tree_util.tree_flatten(m)
                m = jax.tree_util.tree_unflatten(td, lv)
            if tr != "none":
                bump("pre_transport_" + tr)
            mis.append(m)
        key = None if plan["key"] is None else jax.random.PRNGKey(plan["key"])
        arg = mis[0] if plan.get("as_single") else tuple(mis)
        try:
            out = ml.get_batches(arg, B, key, None if plan.get("devices_default") else devices(ndev))
            if plan.get("devices_default"):
                bump("devices_default")
            flat = check_call(mis, plan["specs"], L, B, key is None, ndev, out, viol, site, bump)
            evals += 1
            if flat is not None and ndev > 1:
                # the device axis only reshapes: same key, one device -> same flat order
                out1 = ml.get_batches(arg, B, key, devices(1))
                flat1 = check_call(mis, plan["specs"], L, B, key is None, 1, out1, viol, site, bump)
                evals += 1
                if flat1 is not None and any(not np.array_equal(a, b) for a, b in zip(flat, flat1)):
                    viol("device_axis_reorders", {"n": ndev, "with_devices": [f.tolist() for f in flat], "one_device": [f.tolist() for f in flat1]}, site)
            if flat is not None:
                world.log.add("indices", [f.tolist() for f in flat])
            if flat is not None and plan.get("mutate_and_repeat"):
                # the data set is modified in place (rows rolled by one: row r now carries sample r-1) and batched again
                # with the same arguments: the batches must show the new content in the same row order
                for m in mis:
                    for t in list(m.keys()):
                        m[t] = jnp.roll(m[t], 1, axis=0)
                out2 = ml.get_batches(arg, B, key, devices(ndev))
                rolled = (np.arange(L) - 1) % L
                flat2 = check_call(mis, plan["specs"], L, B, key is None, ndev, out2, viol, site + "/after_inplace_change", bump, identity=rolled)
                evals += 1
                bump("repeat_after_inplace_change")
                if flat2 is not None and any(not np.array_equal(rolled[a], b) for a, b in zip(flat, flat2)):
                    viol("stale_batches_after_inplace_change", {"first_call_rows": [f.tolist() for f in flat], "second_call_samples": [f.tolist() for f in flat2]}, site + "/after_inplace_change")
        except Exception as e:
            viol("raises", f"{type(e).__name__}: {str(e)[:300]}", site)
        kinds += [f"mi{len(mis)}", "nokey" if key is None else "key"] + plan["pre_transport"]
    else:
        site = f"train/n{ndev}"
        X = make_mi(plan["spec_x"], L, D, sp, plan["is_torus"])
        Y = make_mi(plan["spec_y"], L, D, sp, plan["is_torus"])
        VX = VY = None
        if plan["val"]:
            VX = make_mi(plan["spec_x"], plan["Lval"], D, sp, plan["is_torus"], offset=0)
            VY = make_mi(plan["spec_y"], plan["Lval"], D, sp, plan["is_torus"], offset=0)
        calls: list = []

        def hook(multi_images, batch_size, rand_key, devs, out):
            calls.append((multi_images, batch_size, rand_key is None, len(devs) if devs else None, out))

        world.batch_hook = hook
        losses: list = []

        class Rec(ml.EpochStop):
            def stop(self, model, current_epoch, train_loss, val_loss, epoch_time):
                losses.append((None if train_loss is None else float(train_loss), None if val_loss is None else float(val_loss)))
                return super().stop(model, current_epoch, train_loss, val_loss, epoch_time)

        # seam around the real train_step: which samples are actually consumed, in which epoch; optional transient fault
        consumed: list = []  # (epoch index, x sample indices, y sample indices)
        real_train_step = training.train_step
        step_counter = {"n": 0, "faulted": False}
        kx, px, cx = plan["spec_x"][0]
        ky, py, cy = plan["spec_y"][0]

        def train_step_seam(map_and_loss, model, optim, opt_state, xb, yb, aux_data=None):
            world.seam("train_step")
            step_counter["n"] += 1
            if plan.get("step_fault_at") == step_counter["n"] and not step_counter["faulted"]:
                step_counter["faulted"] = True
                world.faults.hit("transient_step_error")
                raise RuntimeError("transient device error (simulated)")
            xi = index_tensor(np.asarray(xb[(kx, px)]), cx, 2, 2 * kx + px)
            yi = index_tensor(np.asarray(yb[(ky, py)]), cy, 2, 2 * ky + py)
            consumed.append((len(losses), None if xi is None else xi.reshape(-1).tolist(), None if yi is None else yi.reshape(-1).tolist()))
            return real_train_step(map_and_loss, model, optim, opt_state, xb, yb, aux_data)

        training.train_step = train_step_seam
        aborted = False
        with world, capture_stdout():
            try:
                training.train(
                    X, Y, pair_map_and_loss, PairModel(), jax.random.PRNGKey(plan["key"]), Rec(plan["epochs"]), B,
                    optax.sgd(0.1), validation_X=VX, validation_Y=VY, devices=devices(ndev),
                )
            except Exception as e:
                if step_counter["faulted"] and "transient device error" in str(e):
                    aborted = True
                    bump("aborted_by_injected_step_error")
                else:
                    viol("raises", f"{type(e).__name__}: {str(e)[:300]}", site)
            finally:
                training.train_step = real_train_step
        if step_counter["faulted"] and not aborted:
            bump("survived_injected_step_error")
        # what the loop consumed, epoch by epoch: aligned, and no sample twice within an epoch
        by_epoch: dict = {}
        for ep, xi, yi in consumed:
            evals += 1
            if xi is None or yi is None or xi != yi:
                viol("alignment", {"epoch": ep, "x_indices": xi, "y_indices": yi}, site + "/consumed")
                break
            by_epoch.setdefault(ep, []).extend(xi)
        for ep, idxs in sorted(by_epoch.items()):
            if len(set(idxs)) != len(idxs):
                viol("index_twice", {"epoch": ep, "consumed_indices": idxs}, site + "/consumed")
                break
        perms = []
        for multi_images, bs, nokey, nd, out in calls:
            evals += 1
            is_val = multi_images[0] is VX
            Lc = plan["Lval"] if is_val else L
            specs = [plan["spec_x"], plan["spec_y"]]
            flat = check_call(list(multi_images), specs, Lc, bs, nokey, ndev, out, viol, site + ("/val" if is_val else "/train"), bump)
            if flat is None:
                break
            if not is_val:
                perms.append(np.concatenate(flat).tolist())
            world.log.add("indices", [f.tolist() for f in flat])
        bump("train_calls", len(calls))
        # pairing as seen inside pmap by the loss
        for e, (tl, vl) in enumerate(losses):
            if tl is not None and tl != 0.0:
                viol("pairing_in_pmap", {"epoch": e, "train_loss": tl}, site)
                break
            if vl is not None and vl != 0.0:
                viol("pairing_in_pmap", {"epoch": e, "val_loss": vl}, site + "/val")
                break
        evals += len(losses)
        if len(perms) >= 2 and L // B * B >= 4:
            if all(p == perms[0] for p in perms[1:]):
                bump("epochs_all_same_permutation")
            else:
                bump("epochs_permutation_varies")
        kinds += [f"e{plan['epochs']}", "val" if plan["val"] else "noval"]
    world.uninstall()
    return {
        "digest": world.log.digest(),
        "evaluations": evals,
        "counters": counters,
        "faults": {**{k: v for k, v in counters.items() if k.startswith("pre_transport_")}, **dict(world.faults)},
        "shape": shape_hash(kinds + [str(L), str(B)]),
        "kinds": kinds,
        "nontrivial": ndev > 1 or L % B != 0 or plan.get("key") is not None,
        "violations": violations,
        "sim_time_s": world.clock.covered,
        "trace_head": world.log.head,
    }


def shrink(plan: dict, fails) -> dict:
    p = dict(plan)

    def attempt(q):
        try:
            return fails(q)
        except Exception:
            return False

    if p["mode"] == "direct":
        while len(p["specs"]) > 1:
            q = dict(p)
            q["specs"] = p["specs"][:-1]
            q["pre_transport"] = p["pre_transport"][:-1]
            if attempt(q):
                p = q
            else:
                break
        q = dict(p)
        q["pre_transport"] = ["none"] * len(p["specs"])
        if attempt(q):
            p = q
    else:
        for e in (1, 2):
            q = dict(p)
            q["epochs"] = e
            if e < p["epochs"] and attempt(q):
                p = q
                break
        q = dict(p)
        q["val"] = False
        if p["val"] and attempt(q):
            p = q
    for L in sorted({p["B"], 2 * p["B"], p["B"] + 1}):
        if L < p["L"]:
            q = dict(p)
            q["L"] = L
            if attempt(q):
                p = q
                break
    return p
