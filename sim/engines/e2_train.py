"""E2-real: the real training loop on real equivariant models (C09) and batch-schedule cross-talk (C14).

mode train_equiv (C09)
  A life-cycle of 1-3 training segments of the real ml.train (real get_batches / train_step / filter_pmap /
  evaluate / save) on a real equivariant model with a real optax optimiser (sgd, adam, adamw with decay;
  large learning rates), inside the simulated world. Faults: crash at a drawn seam call (clock read,
  optimiser update, get_batches, wandb.log, stop seam, checkpoint write), torn checkpoint, restart with
  ml.load into a freshly initialised twin (falling back to the fresh model when the load raises), device
  count / optimiser / batch size change across restarts, wandb errors, clock jumps.
  Invariants after every segment: (i) model(g.x) == g.model(x) for every g in B_d on three probe inputs,
  each output block transforming with its declared (k, parity); (ii) every layer's invariant filter bank
  equals its initial value times one common scalar; (iii) non-vacuity (a trainable leaf moved).

mode crosstalk (C14, second sentence)
  The same data set is pushed through map_plus_loss_in_batches under several drawn schedules (keys, batch
  sizes, 1/2/4 devices); per sample the prediction must equal the model applied to that sample alone, and
  must not change when the other entries of its batch are replaced by garbage.
"""
from __future__ import annotations

import hashlib
from typing import Any, Optional

import numpy as np
import jax
import jax.numpy as jnp
import equinox as eqx
import optax

import ginjax.geometric as geom
import ginjax.ml as ml
import ginjax.models as models
import ginjax.ml.training as training

from ..core import SimCrash, StepBudgetExceeded, Violation, make_rng, shape_hash
from ..world import World
from . import modelzoo as zoo
from .common import arr_bytes, capture_stdout, devices

TOL = 2e-3


# --------------------------------------------------------------------------- helpers
def map_and_loss_smse(model, x, y, aux_data):
    out, aux_data = jax.vmap(model, in_axes=(0, None), out_axes=(0, None), axis_name="batch")(x, aux_data)
    return ml.smse_loss(out, y), aux_data


def map_and_loss_timestep(model, x, y, aux_data):
    out, aux_data = jax.vmap(model, in_axes=(0, None), out_axes=(0, None), axis_name="batch")(x, aux_data)
    return jnp.sum(ml.timestep_smse_loss(out, y, 1)), aux_data


def map_and_loss_normalized(model, x, y, aux_data):
    out, aux_data = jax.vmap(model, in_axes=(0, None), out_axes=(0, None), axis_name="batch")(x, aux_data)
    return ml.normalized_smse_loss(out, y, eps=1e-2), aux_data


MAP_AND_LOSS = {"smse": map_and_loss_smse, "timestep": map_and_loss_timestep, "normalized": map_and_loss_normalized}


def map_and_loss_with_map(model, x, y, aux_data):
    out, aux_data = jax.vmap(model, in_axes=(0, None), out_axes=(0, None), axis_name="batch")(x, aux_data)
    return ml.smse_loss(out, y), aux_data, out


def make_data(sig_list, L, D, spatial, torus, seed, scale=1.0):
    rs = np.random.RandomState(seed % (2**31 - 1))
    data = {}
    for k, p, c in sig_list:
        data[(k, p)] = jnp.asarray((scale * rs.normal(size=(L, c) + tuple(spatial) + (D,) * k)).astype(np.float32))
    return geom.MultiImage(data, D, torus)


def make_optimizer(spec: dict, world: World):
    kind, lr = spec["opt"], spec["lr"]
    if kind == "sgd":
        base = optax.sgd(lr)
    elif kind == "adam":
        base = optax.adam(lr)
    elif kind == "adamw":
        base = optax.adamw(lr, weight_decay=spec.get("wd", 1e-2))
    else:
        raise ValueError(kind)

    def update(grads, state, params=None):
        world.seam("opt_update")  # crash point between two optimiser updates
        return base.update(grads, state, params)

    return optax.GradientTransformation(base.init, update)


_CALL = eqx.filter_jit(lambda m, x: zoo.call_model(m, x))


class _CrashingEpochStop(ml.EpochStop):
    """The real EpochStop plus the stop seam: arms the crash `offset` seam calls after the drawn epoch."""

    def __init__(self, epochs, world, crash):
        super().__init__(epochs)
        self._world, self._crash = world, crash

    def stop(self, model, current_epoch, train_loss, val_loss, epoch_time):
        w = self._world
        w.seam("stop")
        w.disk.sync()  # an epoch is minutes of simulated time: whatever was written before has reached the disk
        w.log.add("epoch", [current_epoch, None if train_loss is None else round(float(train_loss), 5)])
        if self._crash is not None and current_epoch == self._crash["epoch"]:
            if "in_checkpoint_write" in self._crash:
                w.disk.crash_at_write = w.disk.write_calls + self._crash["in_checkpoint_write"]
            else:
                w.crash_plan = {w.seam_calls + self._crash["offset"]: "crash"}
        return super().stop(model, current_epoch, train_loss, val_loss, epoch_time)


def _build(cfg, key):
    m = zoo.build_model(cfg, key)
    ga = cfg.get("group_average")
    if ga:
        m = models.GroupAverage(m, zoo.banks(cfg["D"])["ops"], always_average=ga["always"], inference=True)
    return m


def finite(mi) -> bool:
    return all(bool(jnp.all(jnp.isfinite(v))) for v in mi.values())


def act(x, g):
    """g acting on a multi-image *as a physical object*: pixels and tensors through the library's
    times_group_element, and the per-axis boundary flags travelling with their axes (the library call leaves
    is_torus untouched; for flags that are not all equal the symmetric problem is the one whose flags moved)."""
    y = x.times_group_element(g)
    flags = tuple(x.is_torus)
    if len(set(flags)) > 1:
        ga = np.abs(np.asarray(g))
        new_flags = tuple(flags[int(np.argmax(ga[j]))] for j in range(x.D))
        y = geom.MultiImage(dict(y.items()), x.D, new_flags)
    return y


def jitter(x, seed: int, rel: float = 1e-6):
    """x with every entry perturbed by a relative 1e-6 (about 8 float32 ulps) with random signs."""
    rs = np.random.RandomState(seed % (2**31 - 1))
    return geom.MultiImage({t: v * jnp.asarray(1.0 + rel * rs.choice([-1.0, 1.0], size=v.shape).astype(np.float32)) for t, v in x.items()}, x.D, x.is_torus)


def noise_floor(model, x, base, seed: int) -> dict:
    """Response of the model to a relative 1e-6 input perturbation, per output type: an estimate of how far
    float32 rounding alone can move the output (normalising a nearly constant field amplifies it a lot)."""
    out = _CALL(model, jitter(x, seed))
    return {t: float(np.max(np.abs(np.asarray(out[t]) - np.asarray(base[t])))) if t in out else 0.0 for t in base.keys()}


def equivariance_defects(model, cfg, probes, ops, floor_scale: float = 1.0):
    """Returns (defects persisting on every probe, status) with status in {"ok", "suppressed", "nonfinite"}.
    A defect counts on a probe when it exceeds max(TOL*scale, 30*noise_floor) for that probe and type."""
    per_probe = []
    ill = 0
    for pi, x in enumerate(probes):
        base = _CALL(model, x)
        if not finite(base):
            return None, "nonfinite", 0
        nf = noise_floor(model, x, base, 7919 + pi)
        bad = {}
        for gi, g in enumerate(ops):
            lhs = _CALL(model, act(x, g))
            rhs = act(base, g)
            if not finite(lhs):
                return None, "nonfinite", 0
            if set(lhs.keys()) != set(rhs.keys()):
                bad[gi] = ("types", float("inf"), 0.0)
                continue
            for t in rhs.keys():
                a, b = np.asarray(lhs[t]), np.asarray(rhs[t])
                if a.shape != b.shape:
                    bad[gi] = (list(t), float("inf"), 0.0)
                    break
                scale = max(floor_scale, float(np.max(np.abs(b))))
                d = float(np.max(np.abs(a - b)))
                if d > TOL * scale:
                    if d > 30.0 * nf.get(t, 0.0):
                        bad[gi] = (list(t), d, scale)
                        break
                    ill += 1
        # cyclic translations along toroidal axes (multiples of the pooling factor for the UNet)
        flags = x.is_torus
        step = 2 ** cfg.get("num_downsamples", 1) if cfg["cls"] == "UNet" else 1
        nl = 1
        for si, ax in enumerate([a for a in range(x.D) if flags[a]][:2]):
            sh = step * (1 + si)
            roll = lambda mi: geom.MultiImage({t: jnp.roll(v, sh, axis=nl + ax) for t, v in mi.items()}, mi.D, mi.is_torus)
            lhs = _CALL(model, roll(x))
            rhs = roll(base)
            gi = 1000 + ax  # pseudo group index for translations
            for t in rhs.keys():
                a, b = np.asarray(lhs[t]), np.asarray(rhs[t])
                scale = max(floor_scale, float(np.max(np.abs(b))))
                d = float(np.max(np.abs(a - b)))
                if d > TOL * scale:
                    if d > 30.0 * nf.get(t, 0.0):
                        bad[gi] = (list(t), d, scale)
                        break
                    ill += 1
        per_probe.append(bad)
    persistent = set(per_probe[0])
    for b in per_probe[1:]:
        persistent &= set(b)
    out = [(gi, per_probe[0][gi][0], per_probe[0][gi][1], per_probe[0][gi][2]) for gi in sorted(persistent)]
    suppressed = sum(len(b) for b in per_probe) - len(persistent) * len(per_probe)
    return out, ("ok" if suppressed == 0 else "suppressed"), ill


def rehost(model):
    """A segment boundary is a process boundary: every array goes to the host and comes back on the
    default device (a model trained on n devices is never handed to another device list in-process)."""
    return jax.tree_util.tree_map(lambda a: jnp.asarray(np.asarray(a)) if eqx.is_array(a) else a, model)


def bank_leaves(model) -> dict:
    """path-prefix of each ConvContract -> list of (key, array) of its invariant_filters blocks"""
    out: dict = {}
    for path, leaf in jax.tree_util.tree_flatten_with_path(model)[0]:
        name = jax.tree_util.keystr(path)
        if "invariant_filters" in name and eqx.is_array(leaf):
            prefix = name.split(".invariant_filters")[0]
            out.setdefault(prefix, []).append((name, np.asarray(leaf)))
    return out


def bank_defect(initial: dict, final: dict) -> Optional[dict]:
    for prefix, leaves0 in initial.items():
        leaves1 = final.get(prefix)
        if leaves1 is None or len(leaves1) != len(leaves0):
            return {"layer": prefix, "what": "structure"}
        num = sum(float(np.sum(a1.astype(np.float64) * a0)) for (_, a0), (_, a1) in zip(leaves0, leaves1))
        den = sum(float(np.sum(a0.astype(np.float64) ** 2)) for _, a0 in leaves0)
        s = num / den if den else 1.0
        for (n0, a0), (n1, a1) in zip(leaves0, leaves1):
            err = float(np.max(np.abs(a1 - s * a0))) if a0.size else 0.0
            if err > 1e-5 * max(1.0, float(np.max(np.abs(a0)))):
                return {"layer": prefix, "leaf": n0, "common_scale": s, "max_dev": err}
    return None


def moved(model0, model1) -> float:
    l0 = jax.tree_util.tree_flatten_with_path(eqx.filter(model0, eqx.is_inexact_array))[0]
    l1 = jax.tree_util.tree_flatten_with_path(eqx.filter(model1, eqx.is_inexact_array))[0]
    m = 0.0
    for (p0, a), (p1, b) in zip(l0, l1):
        if "invariant_filters" in jax.tree_util.keystr(p0):
            continue
        if a.shape == b.shape and a.size:
            m = max(m, float(jnp.max(jnp.abs(a - b))))
    return m


# --------------------------------------------------------------------------- plans
def gen_plan(rng, profile: dict, seed: int) -> dict:
    mode = profile["mode"]
    if mode == "train_equiv":
        classes = profile.get("classes") or ["ConvBlock", "ConvBlock", "ResNet", "ResNet", "ResNet", "UNet", "DilResNet"]
        cfg = zoo.gen_cfg(rng, classes=classes, equivariant=True, dims=tuple(profile.get("dims", (2, 2, 2, 2, 3))), allow_unreachable=False)
        if cfg["D"] == 2 and cfg["cls"] != "UNet" and cfg["cls"] != "DilResNet":
            cfg["spatial"] = rng.choice([[4, 4], [3, 3], [4, 4]])
        if rng.random() < 0.1:
            # the other way the library makes a model equivariant: a conventional network inside the group-averaging
            # wrapper, whose symmetry rests on python flags of the wrapper (always_average / inference), not on weights
            cfg = zoo.gen_cfg(rng, classes=["ResNet", "ConvBlock"], equivariant=False, dims=(2,))
            cfg["spatial"] = rng.choice([[4, 4], [3, 3]])
            cfg["torus"] = False
            cfg["group_average"] = {"always": rng.random() < 0.4}
        segs = []
        ndev0 = rng.choice([1, 1, 2])
        B0 = ndev0 * rng.choice([1, 2])
        for si in range(rng.randint(1, 3)):
            if si == 0 or rng.random() < 0.7:
                ndev, B = ndev0, B0  # most restarts keep the device list (and the compiled step)
            else:
                ndev = rng.choice([1, 2])
                B = ndev * rng.choice([1, 2])
            nb = rng.randint(1, 2)
            opt = rng.choice(["sgd", "adam", "adamw", "adamw"])
            lr = {"sgd": rng.choice([0.05, 0.2]), "adam": rng.choice([0.02, 0.1]), "adamw": rng.choice([0.02, 0.1])}[opt]
            epochs = rng.choice([1, 2, 3, 5, 10, 12, 12, 20])
            crash = None
            if rng.random() < 0.45:
                # bias crashes to land around the checkpoint written at the end of every 10th epoch
                e = rng.choice([9, 10, 10, 11, 11, 19]) if epochs >= 10 and rng.random() < 0.8 else rng.randint(0, max(0, epochs - 1))
                crash = {"epoch": min(e, epochs - 1), "offset": rng.randint(1, 14), "seed": rng.getrandbits(24)}
                if epochs >= 10 and rng.random() < 0.45:
                    # die inside the k-th raw write of the checkpoint that the epoch after `epoch` writes
                    crash = {"epoch": rng.choice([9, 19]) if epochs >= 20 else 9, "in_checkpoint_write": rng.randint(1, 4), "seed": rng.getrandbits(24)}
            seg = {
                "epochs": epochs, "opt": opt, "lr": lr, "wd": rng.choice([1e-2, 0.1]), "ndev": ndev, "B": B, "L": nb * B,
                "loss": rng.choice(["smse", "smse", "timestep", "normalized"]), "key": rng.getrandbits(31), "val": rng.random() < 0.3, "wandb": rng.random() < 0.3,
                "wandb_fail_at": rng.choice([None, None, 2, 11]), "wandb_fail_kind": rng.choice(["slow", "raise"]), "clock": rng.choice(["none", "none", "jumps"]),
                "disk_fail": rng.choice([None, None, None, {"at": rng.randint(1, 60), "kind": rng.choice(["enospc", "eio", "short"])}]),
                "crash": crash, "restart_key": rng.getrandbits(31),
            }
            segs.append(seg)
        # equivariance must hold at every input amplitude (stabilising epsilons bite at small ones): per-run amplitude
        return {"mode": mode, "cfg": cfg, "model_key": rng.getrandbits(31), "data_seed": rng.getrandbits(24), "probe_seed": rng.getrandbits(24), "segments": segs,
                "probe_amplitude": rng.choice([1.0, 1.0, 0.1, 0.02])}
    # crosstalk
    eq = rng.random() < 0.5
    classes = ["ConvBlock", "ResNet", "ResNet", "UNet", "DilResNet"] if eq else ["ResNet", "ResNet", "UNet", "DilResNet"]
    cfg = zoo.gen_cfg(rng, classes=classes, equivariant=eq, dims=(2, 2, 2, 3), allow_unreachable=False)
    if rng.random() < 0.6:
        cfg["use_group_norm"] = cfg["cls"] != "ConvContract"
        if cfg["use_group_norm"] and eq and zoo.needs_big(cfg):
            cfg["use_group_norm"] = False
    L = rng.randint(4, 9)
    scheds = []
    for _ in range(rng.randint(2, 3)):
        ndev = rng.choice([1, 2, 4])
        B = ndev * rng.choice([1, 2])
        if B > L:
            ndev, B = 1, rng.randint(1, L)
        scheds.append({"ndev": ndev, "B": B, "key": rng.choice([None, rng.getrandbits(31)])})
    return {"mode": mode, "cfg": cfg, "model_key": rng.getrandbits(31), "data_seed": rng.getrandbits(24), "L": L, "schedules": scheds,
            "perturb_seed": rng.getrandbits(24), "garbage_seed": rng.getrandbits(24)}


def plan_size(plan: dict) -> int:
    return len(plan.get("segments", plan.get("schedules", [])))


def setup(job: dict, widx: int) -> dict:
    return {}


# --------------------------------------------------------------------------- execution
def execute(plan: dict, ctx: dict) -> dict:
    if plan["mode"] == "train_equiv":
        return _exec_train(plan, ctx)
    return _exec_crosstalk(plan, ctx)


def _result(world, evals, counters, kinds, violations, nontrivial=True, discarded=False):
    return {
        "digest": world.log.digest(), "evaluations": evals, "counters": counters, "faults": dict(world.faults), "kinds": kinds,
        "shape": shape_hash(kinds), "nontrivial": nontrivial and not discarded, "violations": violations, "discarded": discarded,
        "sim_time_s": world.clock.covered, "trace_head": world.log.head,
    }


def _exec_train(plan, ctx):
    world = World(plan.get("seed", 0))
    world.log.add("plan", {"cfg": plan["cfg"], "segments": plan["segments"]})
    violations: list[dict] = []
    counters: dict[str, int] = {}
    kinds: list[str] = []
    evals = 0

    def bump(k, n=1):
        counters[k] = counters.get(k, 0) + n

    def viol(clause, detail, site):
        violations.append(Violation("C09", clause, detail, site).to_json())

    cfg = plan["cfg"]
    D = cfg["D"]
    site0 = f"{cfg['cls']}/bias={cfg['use_bias']}/norm={cfg['use_group_norm']}/act={cfg['activation']}"
    ops = zoo.banks(D, zoo.needs_big(cfg))["ops"]
    model = _build(cfg, jax.random.PRNGKey(plan["model_key"]))
    init_model = model
    bank0 = bank_leaves(model)
    amp = float(plan.get("probe_amplitude", 1.0))
    probes = [zoo.probe_input(cfg, plan["probe_seed"] + i) for i in range(3)]
    if amp != 1.0:
        probes = [geom.MultiImage({t: v * amp for t, v in pr.items()}, pr.D, pr.is_torus) for pr in probes]
        bump("small_amplitude_probes")
    kinds.append(cfg["cls"])

    def invariants(m, where, seg_model_before):
        nonlocal evals
        defects, status, ill = equivariance_defects(m, cfg, probes, ops, amp)
        if defects is None:
            bump("discarded_nonfinite")
            return False
        evals += len(ops) * len(probes)
        if status == "suppressed":
            bump("near_tie_suppressed")
        if ill:
            bump("ill_conditioned_comparisons", ill)
        if defects:
            gi, t, d, sc = defects[0]
            viol("equivariance", {"after": where, "g": ops[gi].tolist() if gi < 1000 else f"cyclic shift along axis {gi - 1000}", "type": t, "defect": d, "scale": sc, "n_bad_g": len(defects), "history": kinds[:]}, f"{site0}/equivariance")
        bd = bank_defect(bank0, bank_leaves(m))
        evals += 1
        if bd is not None:
            viol("filter_bank", {"after": where, **bd, "history": kinds[:]}, f"{site0}/filter_bank")
        return True

    try:
        ok = invariants(model, "init", model)
    except Exception as e:
        # the freshly constructed model cannot even be applied to its declared input: that is C20's
        # business (life-cycle check), here the configuration is discarded and counted
        bump("discarded_model_raises_when_fresh")
        world.log.add("discard", f"{type(e).__name__}: {str(e)[:200]}")
        return _result(world, evals, counters, kinds, violations, discarded=True)
    if not ok:
        return _result(world, evals, counters, kinds, violations, discarded=True)
    total_moved = 0.0
    for si, seg in enumerate(plan["segments"]):
        X = make_data(cfg["in_sig"], seg["L"], D, cfg["spatial"], zoo.torus_flags(cfg), plan["data_seed"] + si)
        Y = make_data(cfg["out_sig"], seg["L"], D, cfg["spatial"], zoo.torus_flags(cfg), plan["data_seed"] + 1000 + si)
        VX = VY = None
        if seg["val"]:
            VX = make_data(cfg["in_sig"], seg["B"], D, cfg["spatial"], zoo.torus_flags(cfg), plan["data_seed"] + 2000 + si)
            VY = make_data(cfg["out_sig"], seg["B"], D, cfg["spatial"], zoo.torus_flags(cfg), plan["data_seed"] + 3000 + si)
        world.crash_plan = {}
        world.disk.crash_at_write = None
        world.disk.buffer_size = 2048  # a checkpoint takes several raw writes
        world.clock.plan = []
        if seg["clock"] == "jumps":
            world.clock.plan = [1e6 if i % 3 == 0 else 20.0 for i in range(200)]
            world.clock.reads = 0
        world.wandb.fail_at = {}
        if seg["wandb"] and seg["wandb_fail_at"]:
            world.wandb.fail_at = {world.wandb.calls + seg["wandb_fail_at"]: seg.get("wandb_fail_kind", "slow")}
        world.disk.write_faults = {}
        if seg.get("disk_fail"):
            world.disk.write_faults = {world.disk.write_calls + seg["disk_fail"]["at"]: seg["disk_fail"]["kind"]}
        hard0 = world.faults.get("net_error", 0) + world.faults.get("disk_enospc", 0) + world.faults.get("disk_eio", 0)
        before = model
        mal = MAP_AND_LOSS[seg["loss"]]
        kinds.append(f"train:{seg['opt']}:n{seg['ndev']}:{'ckpt' if seg['epochs'] >= 10 else 'nockpt'}")
        crashed = False
        with world, capture_stdout():
            try:
                model, _aux, tl, vl = training.train(
                    X, Y, mal, model, jax.random.PRNGKey(seg["key"]), _CrashingEpochStop(seg["epochs"], world, seg.get("crash")), seg["B"], make_optimizer(seg, world),
                    validation_X=VX, validation_Y=VY, save_model="ckpt.eqx", devices=devices(seg["ndev"]), is_wandb=seg["wandb"],
                )
                model = rehost(model)
                bump("segments_completed")
                bump("optimizer_steps", seg["epochs"] * (seg["L"] // seg["B"]))
                if tl is not None and not bool(jnp.isfinite(tl)):
                    bump("discarded_nonfinite")
                    return _result(world, evals, counters, kinds, violations, discarded=True)
            except SimCrash:
                crashed = True
            except Exception as e:
                hard1 = world.faults.get("net_error", 0) + world.faults.get("disk_enospc", 0) + world.faults.get("disk_eio", 0)
                if hard1 > hard0:
                    # an injected environment error (wandb unreachable, disk full) escaped the loop: the process dies
                    crashed = True
                    bump("died_of_unhandled_injected_error")
                else:
                    # no fault was injected and the fresh model could be applied to this data: a training loop that raises
                    # (e.g. the model starts emitting blocks of another tensor order after its first update) returns no model at all
                    viol("training_raises", {"error": f"{type(e).__name__}: {str(e)[:300]}", "segment": si, "history": kinds[:]}, f"{site0}/training_raises")
                    return _result(world, evals, counters, kinds, violations)
            except (FloatingPointError,) as e:
                bump("discarded_nonfinite")
                return _result(world, evals, counters, kinds, violations, discarded=True)
        if crashed:
            world.crash_plan = {}  # the armed crash belongs to the process that just died
            world.disk.crash_at_write = None
            kinds.append("crash")
            outcome = world.disk.crash(make_rng((seg.get("crash") or {}).get("seed", seg["restart_key"])))
            fresh = _build(cfg, jax.random.PRNGKey(seg["restart_key"]))
            world.disk.crash_at_write = None
            rr = make_rng(seg["restart_key"])
            if rr.random() < 0.4:  # short reads while restoring: transparent for the unchanged buffered reader
                world.disk.read_faults = {world.disk.read_calls + k: "short" for k in (1, 2, rr.randint(3, 20))}
            try:
                with world:
                    model = ml.load("ckpt.eqx", fresh)
                bump("restart_from_checkpoint")
                kinds.append("restart:ckpt:" + outcome.get("ckpt.eqx", "none"))
            except Exception:
                model = fresh
                bump("restart_from_scratch")
                kinds.append("restart:fresh")
            world.crash_plan = {}
            # a restarted model is compared with the bank of the twin it was loaded into
        world.crash_plan = {}
        mv = moved(before, model) if not crashed else moved(init_model, model)
        total_moved = max(total_moved, mv)
        ok = invariants(model, f"segment {si}" + (" (after crash+restart)" if crashed else ""), before)
        if not ok:
            return _result(world, evals, counters, kinds, violations, discarded=True)
        if violations:
            break
    world.log.add("moved", round(total_moved, 6))
    for prefix, leaves in sorted(bank_leaves(model).items())[:3]:
        pass
    for name, leaf in [(jax.tree_util.keystr(p), l) for p, l in jax.tree_util.tree_flatten_with_path(eqx.filter(model, eqx.is_inexact_array))[0]][:30]:
        world.log.add("leaf", arr_bytes(leaf))
    vac = total_moved <= 1e-3
    if vac:
        bump("vacuous")
    else:
        bump("moved_runs")
    return _result(world, evals, counters, kinds, violations, nontrivial=not vac)


# --------------------------------------------------------------------------- crosstalk
def _perturb(model, seed):
    from .e4_lifecycle import perturb

    return perturb(model, seed, 0.3)


def _exec_crosstalk(plan, ctx):
    world = World(plan.get("seed", 0))
    world.log.add("plan", {"cfg": plan["cfg"], "schedules": plan["schedules"], "L": plan["L"]})
    violations: list[dict] = []
    counters: dict[str, int] = {}
    kinds: list[str] = []
    evals = 0

    def bump(k, n=1):
        counters[k] = counters.get(k, 0) + n

    def viol(clause, detail, site):
        violations.append(Violation("C14", clause, detail, site).to_json())

    cfg = plan["cfg"]
    D, L = cfg["D"], plan["L"]
    site0 = f"{cfg['cls']}/{'eq' if cfg['equivariant'] else 'conv'}/norm={cfg['use_group_norm']}"
    model = _perturb(zoo.build_model(cfg, jax.random.PRNGKey(plan["model_key"])), plan["perturb_seed"])
    X = make_data(cfg["in_sig"], L, D, cfg["spatial"], zoo.torus_flags(cfg), plan["data_seed"])
    Y = make_data(cfg["out_sig"], L, D, cfg["spatial"], zoo.torus_flags(cfg), plan["data_seed"] + 1)
    kinds.append(cfg["cls"] + ("/eq" if cfg["equivariant"] else "/conv") + ("/norm" if cfg["use_group_norm"] else ""))
    # each sample alone
    single, floors = [], []
    for i in range(L):
        xi = X.get_one(i, keepdims=False)
        try:
            o = _CALL(model, xi)
        except Exception as e:
            bump("discarded_model_raises_when_fresh")
            world.log.add("discard", f"{type(e).__name__}: {str(e)[:200]}")
            return _result(world, evals, counters, kinds, violations, discarded=True)
        if not finite(o):
            bump("discarded_nonfinite")
            return _result(world, evals, counters, kinds, violations, discarded=True)
        single.append({t: np.asarray(v) for t, v in o.items()})
        floors.append(noise_floor(model, xi, o, 104729 + i))
    row_hash = {}
    for i in range(L):
        h = hashlib.sha1(b"".join(arr_bytes(np.asarray(X[t][i])) for t in sorted(X.keys()))).hexdigest()
        row_hash[h] = i

    def close(a, b, floor=0.0):
        scale = max(1.0, float(np.max(np.abs(b))))
        d = float(np.max(np.abs(a - b)))
        return d <= max(TOL * scale, 30.0 * floor), d, scale

    for sc in plan["schedules"]:
        delivered: list = []

        def hook(multi_images, batch_size, rand_key, devs, out):
            for b in out[0]:
                flat = b.merge_axes([0, 1])
                for j in range(flat.get_L()):
                    h = hashlib.sha1(b"".join(arr_bytes(np.asarray(flat[t][j])) for t in sorted(flat.keys()))).hexdigest()
                    delivered.append(row_hash.get(h))

        world.batch_hook = hook
        kinds.append(f"sched:n{sc['ndev']}:B{sc['B']}:{'key' if sc['key'] is not None else 'nokey'}")
        key = None if sc["key"] is None else jax.random.PRNGKey(sc["key"])
        with world:
            try:
                loss, out = training.map_plus_loss_in_batches(map_and_loss_with_map, model, X, Y, sc["B"], key, devices(sc["ndev"]))
            except Exception as e:
                viol("raises", f"{type(e).__name__}: {str(e)[:300]}", site0)
                break
        world.batch_hook = None
        bump("schedules")
        n_out = out.get_L()
        if n_out != len(delivered) or any(d is None for d in delivered):
            raise AssertionError("harness: could not attribute delivered samples")
        if sc["key"] is None and delivered != list(range(len(delivered))):
            # no shuffling key: row r of the mapped output must be the prediction for sample r
            viol("output_row_alignment", {"schedule": sc, "delivered_order": delivered}, f"{site0}/output_row_alignment")
            break
        bad = []
        for pos, i in enumerate(delivered):
            evals += 1
            for t in single[i]:
                ok, d, s = close(np.asarray(out[t][pos]), single[i][t], floors[i].get(t, 0.0))
                if not ok:
                    bad.append({"sample": i, "position": pos, "type": list(t), "defect": d, "scale": s})
                    break
        # persistence rule: a real cross-talk defect shows on (nearly) every sample
        if len(bad) >= 3 or (len(bad) >= 1 and len(bad) == len(delivered)):
            viol("batched_vs_alone", {"schedule": sc, "n_bad": len(bad), "n": len(delivered), "first": bad[0]}, f"{site0}/batched_vs_alone")
            break
        elif bad:
            bump("near_tie_suppressed", len(bad))
    # garbage replacement inside one vmapped batch
    if not violations:
        B = min(L, 3)
        idx = jnp.arange(B)
        Xb = X.get_subset(idx)
        vm = eqx.filter_jit(lambda m, xb: jax.vmap(lambda xi: zoo.call_model(m, xi))(xb))
        base = vm(model, Xb)
        rs = np.random.RandomState(plan["garbage_seed"] % (2**31 - 1))
        bad = 0
        for j in range(B):
            evals += 1
            garb = {}
            for t, v in Xb.items():
                g = np.asarray(v).copy()
                noise = (50.0 * rs.normal(size=g.shape)).astype(np.float32)
                keep = g[j].copy()
                g = noise
                g[j] = keep
                garb[t] = jnp.asarray(g)
            Xg = geom.MultiImage(garb, D, Xb.is_torus)
            og = vm(model, Xg)
            for t in base.keys():
                a, b = np.asarray(og[t][j]), np.asarray(base[t][j])
                if not np.all(np.isfinite(a)):
                    continue
                if float(np.max(np.abs(a - b))) > 1e-4 * max(1.0, float(np.max(np.abs(b)))):
                    bad += 1
                    break
        bump("garbage_replacements", B)
        if bad >= max(2, B - 1) or (B == 1 and bad == 1):
            viol("garbage_in_batch", {"entries_changed": bad, "batch": B}, f"{site0}/garbage_in_batch")
        elif bad:
            bump("near_tie_suppressed", bad)
    # channel groups of the normalisation layer: with groups > 1 every group is normalised on its own, so replacing
    # the channels of the other groups must leave a group's output unchanged ("no cross-talk between ... channels")
    if not violations:
        rs = np.random.RandomState((plan["garbage_seed"] + 1) % (2**31 - 1))
        groups = int(rs.choice([2, 3]))
        per = int(rs.choice([1, 2]))
        C = groups * per
        types = [(0, 0), (1, 0)] + ([(1, 1)] if D == 2 else [])
        sig = geom.Signature(tuple((t, C) for t in types))
        layer = ml.GroupNorm(sig, D, groups)
        sp = tuple(cfg["spatial"])
        mk = lambda scale: geom.MultiImage({t: jnp.asarray((scale * rs.normal(size=(C,) + sp + (D,) * t[0])).astype(np.float32)) for t in types}, D, zoo.torus_flags(cfg))
        xa = mk(1.0)
        try:
            base = layer(xa)
            bad = 0
            for gj in range(groups):
                evals += 1
                noise = mk(30.0)
                keep = slice(gj * per, (gj + 1) * per)
                xg = geom.MultiImage({t: noise[t].at[keep].set(xa[t][keep]) for t in types}, D, xa.is_torus)
                og = layer(xg)
                for t in types:
                    a, b = np.asarray(og[t][keep]), np.asarray(base[t][keep])
                    if np.all(np.isfinite(a)) and float(np.max(np.abs(a - b))) > 1e-3 * max(1.0, float(np.max(np.abs(b)))):
                        bad += 1
                        break
            bump("group_norm_groups_checked", groups)
            if bad == groups:
                viol("channel_groups_cross_talk", {"groups": groups, "channels": C, "groups_changed": bad}, f"GroupNorm/groups={groups}/channel_groups")
        except NotImplementedError:
            pass
    return _result(world, evals, counters, kinds, violations)


def shrink(plan: dict, fails) -> dict:
    p = dict(plan)

    def attempt(q):
        try:
            return fails(q)
        except Exception:
            return False

    if p["mode"] == "train_equiv":
        if attempt({**p, "segments": []}):
            return {**p, "segments": []}
        while len(p["segments"]) > 1:
            q = {**p, "segments": p["segments"][:-1]}
            if attempt(q):
                p = q
                continue
            q = {**p, "segments": p["segments"][1:]}
            if attempt(q):
                p = q
                continue
            break
        segs = []
        for seg in p["segments"]:
            s2 = dict(seg)
            for k, v in (("crash", None), ("wandb", False), ("val", False), ("clock", "none"), ("ndev", 1)):
                trial = dict(s2)
                trial[k] = v
                if k == "ndev":
                    trial["B"] = max(1, s2["B"] // s2["ndev"])
                    trial["L"] = trial["B"] * max(1, s2["L"] // s2["B"])
                q = {**p, "segments": [trial if x is seg else x for x in p["segments"]]}
                if trial != s2 and attempt(q):
                    s2 = trial
            for e in (1, 2, 3):
                if e < s2["epochs"]:
                    trial = {**s2, "epochs": e}
                    q = {**p, "segments": [trial if x is seg else x for x in p["segments"]]}
                    if attempt(q):
                        s2 = trial
                        break
            segs.append(s2)
        cand = {**p, "segments": segs}
        if attempt(cand):
            p = cand
    else:
        while len(p["schedules"]) > 1:
            q = {**p, "schedules": p["schedules"][:-1]}
            if attempt(q):
                p = q
            else:
                break
    return p
