"""E1: container history machine (C12, C13 relayouts, C14 first sentence, C18).

A register file of real geom.MultiImage objects next to a reference model (RefMI: an *unordered*
mapping type -> numpy array, plus D and flags). A run is a generated history of public-API
operations interleaved with transport events (F-reorder: pytree round trip, jit, vmap, copy,
re-insertion in a drawn permutation). After every step every live register is compared with its
reference by type, bit-exactly. All values are small integers in float32 and scalars are powers
of two, so no tolerance is needed except for the losses (float64 reference, rel 1e-5).
"""
from __future__ import annotations

import itertools
import math
from typing import Any, Optional

import numpy as np
import jax
import jax.numpy as jnp

import ginjax.geometric as geom
import ginjax.ml as ml

from ..core import EventLog, Violation, ddmin, shape_hash
from .common import arr_bytes, devices

TINY = 1.0e-5
ALL_TYPES = [(0, 0), (0, 1), (1, 0), (1, 1), (2, 0), (2, 1), (3, 0)]
SCALARS = [0.5, 2.0, 4.0, -1.0, 0.25, -2.0]


# --------------------------------------------------------------------------- reference model
class RefMI:
    def __init__(self, blocks: dict, D: int, is_torus: tuple):
        self.blocks = {tuple(k): np.asarray(v, dtype=np.float32) for k, v in blocks.items()}
        self.D = D
        self.is_torus = tuple(is_torus)

    def copy(self) -> "RefMI":
        return RefMI(dict(self.blocks), self.D, self.is_torus)

    def n_lead(self) -> int:
        for (k, _), b in self.blocks.items():
            return b.ndim - self.D - k
        return 0

    def lead_shape(self, t) -> tuple:
        return self.blocks[t].shape[: self.n_lead()]

    def spatial(self) -> tuple:
        for (k, _), b in self.blocks.items():
            n = b.ndim - self.D - k
            return b.shape[n : n + self.D]
        return ()

    def types(self) -> set:
        return set(self.blocks.keys())

    def same_layout(self, other: "RefMI") -> bool:
        return (
            self.D == other.D
            and self.types() == other.types()
            and all(self.blocks[t].shape == other.blocks[t].shape for t in self.blocks)
        )

    def first_axis_uniform(self) -> bool:
        if self.n_lead() < 1 or not self.blocks:
            return False
        return len({b.shape[0] for b in self.blocks.values()}) == 1

    def batch_uniform(self) -> bool:
        """all leading axes except the channel axis have the same sizes in every block"""
        nl = self.n_lead()
        return len({b.shape[: max(nl - 1, 0)] for b in self.blocks.values()}) <= 1

    def max_abs(self) -> float:
        return max([float(np.max(np.abs(b))) if b.size else 0.0 for b in self.blocks.values()] + [0.0])

    def desc(self) -> dict:
        return {f"{k},{p}": list(b.shape) for (k, p), b in sorted(self.blocks.items())}


def block_values(vseed: int, t: tuple, shape: tuple, lo: int = -8, hi: int = 8) -> np.ndarray:
    rs = np.random.RandomState((vseed * 1000003 + t[0] * 7 + t[1] * 3 + 11) % (2**31 - 1))
    return rs.randint(lo, hi + 1, size=shape).astype(np.float32)


def block_shape(lead: tuple, c: Optional[int], spatial: tuple, D: int, k: int) -> tuple:
    ch = () if c is None else (c,)
    return tuple(lead) + ch + tuple(spatial) + (D,) * k


# --------------------------------------------------------------------------- plan generation
def _gen_sig(rng, D: int, n_lead: int, equal_sizes: bool) -> list:
    kmax = 0 if D == 1 else rng.choice([1, 1, 2, 2, 2, 3] if D == 2 else [1, 1, 2])
    pool = [t for t in ALL_TYPES if t[0] <= kmax]
    n = rng.randint(1, min(4, len(pool)))
    types = rng.sample(pool, n)  # drawn order = insertion order
    if n_lead == 0:
        return [[k, p, None] for k, p in types]
    kk = max(k for k, _ in types)
    base = rng.choice([1, 1, 2])
    sig = []
    for k, p in types:
        if equal_sizes and D ** (kk - k) * base <= 8:
            c = base * D ** (kk - k)  # equal element counts across types: the silent positional case
        else:
            c = rng.randint(1, 4)
        sig.append([k, p, c])
    return sig


def _registers_summary(refs: dict) -> list:
    return sorted(refs.keys())


class Gen:
    """Generates a concrete, JSON-able plan while simulating only the reference model."""

    def __init__(self, rng, profile: dict):
        self.rng = rng
        self.profile = profile
        self.refs: dict[int, RefMI] = {}
        self.next_id = 0
        self.ops: list[dict] = []
        rng_D = rng.choice(profile.get("dims", [1, 2, 2, 2, 2, 3]))
        self.D = rng_D
        # a small palette of extents (square, non-square, extent 1): keeps XLA compile caches warm
        palette = {
            1: [(4,), (3,), (6,), (1,)],
            2: [(2, 2), (4, 4), (3, 3), (2, 4), (4, 2), (3, 2), (1, 3), (2, 1)],
            3: [(2, 2, 2), (2, 1, 3), (1, 2, 2), (3, 2, 1), (2, 2, 4)],
        }[self.D]
        self.spatial = rng.choice(palette)
        if rng.random() < 0.5:
            self.is_torus = (rng.random() < 0.5,) * self.D
        else:
            self.is_torus = tuple(rng.random() < 0.5 for _ in range(self.D))
        self.weights = profile.get("weights", {})

    def fresh(self) -> int:
        self.next_id += 1
        return self.next_id

    # -- helpers
    def pick(self, pred=None) -> Optional[int]:
        ids = [i for i, r in self.refs.items() if (pred is None or pred(r))]
        return self.rng.choice(sorted(ids)) if ids else None

    def emit(self, op: dict) -> bool:
        ok = apply_ref(op, self.refs, self.D)
        if ok:
            self.ops.append(op)
        return ok

    def gen_new(self, n_lead=None, like: Optional[RefMI] = None) -> int:
        rng = self.rng
        out = self.fresh()
        if like is not None:
            order = list(like.blocks.keys())
            rng.shuffle(order)
            op = {"op": "new_shaped", "out": out, "blocks": [[t[0], t[1], list(like.blocks[t].shape)] for t in order],
                  "is_torus": list(like.is_torus), "vseed": rng.getrandbits(24), "how": rng.choice(["ctor", "ctor", "append"])}
            assert self.emit(op), op
            return out
        else:
            if n_lead is None:
                n_lead = rng.choice([0, 1, 1, 1, 1, 2, 2, 2, 2, 3])
            sig = _gen_sig(rng, self.D, n_lead, rng.random() < 0.45)
            lead = [rng.choice([1, 2, 2, 3, 4]) for _ in range(max(0, n_lead - 1))]
            if len(lead) == 2 and lead[0] == lead[1]:
                lead[1] = lead[1] % 4 + 1  # distinct leading sizes
            spatial = list(self.spatial)
            it = list(self.is_torus)
            if rng.random() < 0.04:
                it = [not x for x in it]
        how = "ctor"
        r = rng.random()
        if r < 0.3:
            how = "append"
        elif r < 0.45 and len(lead) == 0 and sig[0][2] is not None:
            how = "from_images"
        op = {"op": "new", "out": out, "sig": sig, "lead": lead, "spatial": spatial, "is_torus": it, "vseed": rng.getrandbits(24), "how": how}
        if rng.random() < 0.07:
            op["dtype"] = "int32"  # integer-valued blocks stored as integers: arithmetic must promote, never truncate
        if how == "from_images" and rng.random() < 0.35:
            op["images_lead2_axis"] = rng.choice([0, 1])  # from_images(images, n_lead_axes=2, axis=...)
        if how == "from_images":
            seq = [(i, c) for i, (_, _, cc) in enumerate(sig) for c in range(cc)]
            # interleave images of different types; channel order inside a type is kept
            order = []
            cursors = [0] * len(sig)
            remaining = [cc for _, _, cc in sig]
            while sum(remaining):
                i = rng.choice([j for j, rem in enumerate(remaining) if rem])
                order.append(i)
                remaining[i] -= 1
            op["image_order"] = order
        assert self.emit(op), op
        return out

    # -- one step
    def step(self) -> None:
        rng = self.rng
        w = self.weights
        kinds = [
            ("new", 6), ("like", 10), ("transport", 18), ("arith", 16 * w.get("arith", 1)), ("scalar", 5), ("eq", 5), ("eq_magnitude_gap", 2 * w.get("arith", 1)), ("obs_bigint", 1 * w.get("arith", 1)), ("obs_loss_near", 2 * w.get("loss", 1)),
            ("obs_x64", 1 * max(w.get("loss", 1), w.get("arith", 1), w.get("relayout", 1))), ("obs_norm_gap", 1 * w.get("obs", 1)),
            ("append", 5), ("concat", 6), ("concat_empty", 2), ("concat_inverse", 5), ("expand", 4), ("combine", 4), ("reshape_pmap", 4),
            ("vector_rt", 4 * w.get("relayout", 1)), ("scalar_rt", 4 * w.get("relayout", 1)), ("images_rt", 3 * w.get("relayout", 1)),
            ("subset", 3), ("get_one", 2), ("copy", 2), ("empty", 1), ("mismatch", 2),
            ("obs_group", 5 * w.get("obs", 1)), ("obs_norm", 3 * w.get("obs", 1)), ("obs_pool", 3 * w.get("obs", 1)),
            ("obs_component", 2 * w.get("obs", 1)), ("obs_batch_component", 2 * w.get("obs", 1)), ("obs_images", 2 * w.get("obs", 1)),
            ("loss", 8 * w.get("loss", 1)), ("drop", 3),
        ]
        total = sum(x for _, x in kinds)
        r = rng.random() * total
        kind = kinds[-1][0]
        for name, x in kinds:
            if r < x:
                kind = name
                break
            r -= x
        getattr(self, "g_" + kind)()

    def g_new(self):
        self.gen_new()

    def g_like(self):
        a = self.pick(lambda r: len(r.blocks) >= 1)
        if a is None:
            return self.g_new()
        self.gen_new(like=self.refs[a])

    def g_transport(self):
        a = self.pick(lambda r: len(r.blocks) >= 1)
        if a is None:
            return
        r = self.refs[a]
        kinds = ["tree", "jit", "copy", "reinsert", "reinsert"]
        if r.first_axis_uniform():
            kinds += ["vmap", "vmap"]
        kind = self.rng.choice(kinds)
        op = {"op": "transport", "reg": a, "kind": kind}
        if kind == "reinsert":
            perm = list(range(len(r.blocks)))
            self.rng.shuffle(perm)
            op["perm"] = perm
        self.emit(op)

    def _pair(self):
        a = self.pick(lambda r: len(r.blocks) >= 1)
        if a is None:
            return None, None
        ra = self.refs[a]
        cands = [i for i, r in self.refs.items() if i != a and r.same_layout(ra) and r.is_torus == ra.is_torus]
        if cands and self.rng.random() < 0.7:
            return a, self.rng.choice(sorted(cands))
        b = self.gen_new(like=ra)
        # let the partner cross a transport with some probability, so that orders differ in every way
        if self.rng.random() < 0.4:
            self.emit({"op": "transport", "reg": b, "kind": self.rng.choice(["tree", "jit", "copy"])})
        return a, b

    def g_arith(self):
        a, b = self._pair()
        if a is None:
            return
        if self.refs[a].max_abs() + self.refs[b].max_abs() > 2**18:
            return
        if self.rng.random() < 0.5:
            a, b = b, a
        self.emit({"op": self.rng.choice(["add", "sub"]), "a": a, "b": b, "out": self.fresh()})

    def g_scalar(self):
        a = self.pick(lambda r: len(r.blocks) >= 1 and 2**-10 < max(r.max_abs(), 1) < 2**16)
        if a is None:
            return
        self.emit({"op": self.rng.choice(["mul", "div"]), "a": a, "s": self.rng.choice(SCALARS), "srepr": self.rng.choice(["float", "float", "np32", "jax0d", "int"]), "out": self.fresh()})

    def g_eq(self):
        a, b = self._pair()
        if a is None:
            return
        r = self.rng.random()
        if r < 0.4:
            # equal content through another history
            c = self.fresh()
            self.emit({"op": "copy", "a": a, "out": c})
            perm = list(range(len(self.refs[a].blocks)))
            self.rng.shuffle(perm)
            self.emit({"op": "transport", "reg": c, "kind": "reinsert", "perm": perm})
            b = c
        self.emit({"op": "eq", "a": a, "b": b})

    def g_eq_magnitude_gap(self):
        """two multi-images that differ by 0.25 in one entry of a small-magnitude type while another type is ~1e6: the
        comparison is per type, the big block must not lend its tolerance to the small one"""
        a = self.pick(lambda r: len(r.blocks) >= 2 and r.max_abs() <= 8)
        if a is None:
            return
        ra = self.refs[a]
        types = sorted(ra.blocks)
        big, small = self.rng.sample(types, 2)
        x, y = self.fresh(), self.fresh()
        if not self.emit({"op": "copy", "a": a, "out": x}):
            return
        self.emit({"op": "setitem", "reg": x, "k": big[0], "p": big[1], "scale": 131072.0, "delta": 0.0})
        self.emit({"op": "copy", "a": x, "out": y})
        self.emit({"op": "setitem", "reg": y, "k": small[0], "p": small[1], "scale": 1.0, "delta": 0.25})
        if self.rng.random() < 0.5:
            perm = list(range(len(types)))
            self.rng.shuffle(perm)
            self.emit({"op": "transport", "reg": y, "kind": "reinsert", "perm": perm})
        self.emit({"op": "eq", "a": x, "b": y})
        self.emit({"op": "drop", "reg": x})
        self.emit({"op": "drop", "reg": y})

    def g_obs_bigint(self):
        self.emit({"op": "obs_bigint", "vseed": self.rng.getrandbits(24), "types": self.rng.randint(1, 3), "swap": self.rng.random() < 0.5})

    def g_obs_loss_near(self):
        self.emit({"op": "obs_loss_near", "vseed": self.rng.getrandbits(24), "offset": self.rng.choice([0.0, 30.0, 300.0]), "err": self.rng.choice([1e-2, 1e-1, 1.0]),
                   "n_steps": self.rng.choice([1, 2]), "swap": self.rng.random() < 0.5})

    def g_obs_norm_gap(self):
        self.emit({"op": "obs_norm_gap", "vseed": self.rng.getrandbits(24), "lo_exp": self.rng.choice([-30, -20, -10]), "hi_exp": self.rng.choice([30, 40, 50]),
                   "n_lead": self.rng.choice([1, 2]), "k": self.rng.choice([1, 1, 2])})

    def g_obs_x64(self):
        self.emit({"op": "obs_x64", "vseed": self.rng.getrandbits(24), "offset": self.rng.choice([0.0, 1.0, 1000.0]), "err_exp": self.rng.choice([-8, -10, -12]),
                   "n_steps": self.rng.choice([1, 2]), "swap": self.rng.random() < 0.5, "transport": self.rng.choice(["none", "tree", "jit"])})

    def g_mismatch(self):
        """operands holding different sets of types must be rejected"""
        a = self.pick(lambda r: len(r.blocks) >= 1)
        if a is None:
            return
        ra = self.refs[a]
        cands = [i for i, r in self.refs.items() if i != a and r.D == ra.D and (r.types() != ra.types() or r.is_torus != ra.is_torus)]
        if not cands:
            return
        b = self.rng.choice(sorted(cands))
        self.emit({"op": self.rng.choice(["add", "sub", "eq"]), "a": a, "b": b, "out": self.fresh()})

    def g_append(self):
        a = self.pick()
        if a is None:
            return
        r = self.refs[a]
        nl = r.n_lead()
        if r.blocks and self.rng.random() < 0.6:
            t = self.rng.choice(sorted(r.blocks))
            if nl == 0:
                return
            axis = self.rng.randrange(nl)
            shp = list(r.blocks[t].shape)
            shp[axis] = self.rng.randint(1, 2)
        else:
            pool = [t for t in ALL_TYPES if t not in r.blocks and t[0] <= (0 if self.D == 1 else 2)]
            if not pool:
                return
            t = self.rng.choice(pool)
            axis = 0
            if r.blocks:
                t0 = sorted(r.blocks)[0]
                lead = list(r.lead_shape(t0))
                if nl >= 1:
                    lead[-1] = self.rng.randint(1, 3)
                shp = lead + list(r.spatial()) + [self.D] * t[0]
            else:
                shp = [self.rng.randint(1, 3)] + list(self.spatial) + [self.D] * t[0]
        self.emit({"op": "append", "reg": a, "k": t[0], "p": t[1], "shape": shp, "axis": axis, "vseed": self.rng.getrandbits(24)})

    def g_concat(self):
        a = self.pick(lambda r: len(r.blocks) >= 1 and r.n_lead() >= 1)
        if a is None:
            return
        ra = self.refs[a]
        nl = ra.n_lead()
        axis = self.rng.randrange(nl)
        # build a partner with an overlapping type set and matching off-axis shape
        out_b = self.fresh()
        types = list(ra.blocks.keys())
        self.rng.shuffle(types)
        keep = types[: self.rng.randint(1, len(types))]
        sig_b = []
        t0 = types[0]
        lead = list(ra.lead_shape(t0))
        for t in keep:
            shp = list(ra.blocks[t].shape)
            shp[axis] = self.rng.randint(1, 3)
            sig_b.append([t[0], t[1], shp])
        extra = [t for t in ALL_TYPES if t not in ra.blocks and t[0] <= (0 if self.D == 1 else 2)]
        if extra and self.rng.random() < 0.3 and axis == nl - 1:
            t = self.rng.choice(extra)
            ld = list(ra.lead_shape(t0))
            ld[axis] = self.rng.randint(1, 3)
            sig_b.append([t[0], t[1], ld + list(ra.spatial()) + [self.D] * t[0]])
        self.rng.shuffle(sig_b)
        if not self.emit({"op": "new_shaped", "out": out_b, "blocks": sig_b, "is_torus": list(ra.is_torus), "vseed": self.rng.getrandbits(24)}):
            return
        c = self.fresh()
        if not self.emit({"op": "concat", "a": a, "b": out_b, "axis": axis, "out": c}):
            return
        if self.rng.random() < 0.75:
            # the inverse with the signature of b along that axis (C13 round trip)
            rb = self.refs[out_b]
            sig = [[t[0], t[1], rb.blocks[t].shape[axis]] for t in rb.blocks]
            self.rng.shuffle(sig)
            as_dict = axis != nl - 1 or self.rng.random() < 0.5
            self.emit({"op": "concat_inverse", "a": c, "sig": sig, "axis": axis, "as_dict": as_dict, "out_a": self.fresh(), "out_b": self.fresh(), "expect_a": a, "expect_b": out_b})

    def g_concat_empty(self):
        b = self.pick(lambda r: len(r.blocks) >= 1 and r.n_lead() >= 1)
        if b is None:
            return
        e = self.fresh()
        if not self.emit({"op": "empty", "a": b, "out": e}):
            return
        c = self.fresh()
        first, second = (e, b) if self.rng.random() < 0.6 else (b, e)
        if self.emit({"op": "concat", "a": first, "b": second, "axis": 0, "out": c}):
            # change the result in place: the operand it was built from must not change with it
            r = self.refs[c]
            t = self.rng.choice(sorted(r.blocks))
            shp = list(r.blocks[t].shape)
            shp[0] = 1
            self.emit({"op": "append", "reg": c, "k": t[0], "p": t[1], "shape": shp, "axis": 0, "vseed": self.rng.getrandbits(24)})

    def g_concat_inverse(self):
        a = self.pick(lambda r: len(r.blocks) >= 1 and r.n_lead() >= 1)
        if a is None:
            return
        r = self.refs[a]
        axis = self.rng.randrange(r.n_lead())
        sig = []
        for t in r.blocks:
            if self.rng.random() < 0.7:
                sig.append([t[0], t[1], self.rng.randint(0, r.blocks[t].shape[axis])])
        self.rng.shuffle(sig)
        self.emit({"op": "concat_inverse", "a": a, "sig": sig, "axis": axis, "as_dict": True, "out_a": self.fresh(), "out_b": self.fresh()})

    def g_expand(self):
        a = self.pick(lambda r: len(r.blocks) >= 1 and 1 <= r.n_lead() <= 2)
        if a is None:
            return
        r = self.refs[a]
        axis = self.rng.randrange(r.n_lead())
        sizes = [b.shape[axis] for b in r.blocks.values()]
        g = 0
        for s in sizes:
            g = math.gcd(g, s)
        divs = [d for d in range(1, g + 1) if g % d == 0]
        size = self.rng.choice(divs)
        out = self.fresh()
        if self.emit({"op": "expand", "a": a, "axis": axis, "size": size, "out": out}) and self.rng.random() < 0.7:
            inv = self.rng.choice(["combine_axes", "merge_axes"])
            self.emit({"op": inv, "a": out, "axes": [axis, axis + 1], "out": self.fresh(), "expect": a})

    def g_combine(self):
        a = self.pick(lambda r: len(r.blocks) >= 1 and r.n_lead() >= 2)
        if a is None:
            return
        r = self.refs[a]
        nl = r.n_lead()
        first = self.rng.randrange(nl - 1)
        last = self.rng.randint(first + 1, nl - 1)
        self.emit({"op": self.rng.choice(["combine_axes", "merge_axes"]), "a": a, "axes": list(range(first, last + 1)), "out": self.fresh()})

    def g_reshape_pmap(self):
        a = self.pick(lambda r: r.first_axis_uniform() and r.n_lead() <= 2)
        if a is None:
            return
        r = self.refs[a]
        L = next(iter(r.blocks.values())).shape[0]
        ns = [n for n in (1, 2, 4) if L % n == 0]
        n = self.rng.choice(ns)
        out = self.fresh()
        if self.emit({"op": "reshape_pmap", "a": a, "n": n, "out": out}) and self.rng.random() < 0.7:
            self.emit({"op": "merge_axes", "a": out, "axes": [0, 1], "out": self.fresh(), "expect": a})
        if self.rng.random() < 0.3:
            # the documented axis argument: split an inner leading axis whose size equals get_L()
            r2 = [i for i, rr in self.refs.items() if rr.first_axis_uniform() and rr.n_lead() == 2 and rr.batch_uniform()
                  and all(b.shape[1] == b.shape[0] for b in rr.blocks.values())]
            if r2:
                b = self.rng.choice(sorted(r2))
                Lb = next(iter(self.refs[b].blocks.values())).shape[0]
                nn = self.rng.choice([m for m in (1, 2, 4) if Lb % m == 0])
                o2 = self.fresh()
                if self.emit({"op": "reshape_pmap", "a": b, "n": nn, "axis": 1, "out": o2}):
                    self.emit({"op": "merge_axes", "a": o2, "axes": [1, 2], "out": self.fresh(), "expect": b})

    def g_vector_rt(self):
        a = self.pick(lambda r: len(r.blocks) >= 1)
        if a is not None:
            self.emit({"op": "vector_rt", "a": a, "template": self.rng.choice(["self", "copy"]), "out": self.fresh()})

    def g_scalar_rt(self):
        a = self.pick(lambda r: len(r.blocks) >= 1 and r.n_lead() >= 1 and r.batch_uniform())
        if a is not None:
            self.emit({"op": "scalar_rt", "a": a, "out": self.fresh()})

    def g_images_rt(self):
        a = self.pick(lambda r: len(r.blocks) >= 1 and r.n_lead() == 1)
        if a is not None:
            self.emit({"op": "images_rt", "a": a, "out": self.fresh()})

    def g_subset(self):
        a = self.pick(lambda r: r.first_axis_uniform() or (len(r.blocks) >= 1 and r.n_lead() >= 1))
        if a is None:
            return
        r = self.refs[a]
        m = min(b.shape[0] for b in r.blocks.values())
        idxs = [self.rng.randrange(m) for _ in range(self.rng.randint(1, 3))]
        self.emit({"op": "get_subset", "a": a, "idxs": idxs, "out": self.fresh()})

    def g_get_one(self):
        a = self.pick(lambda r: len(r.blocks) >= 1 and r.n_lead() >= 1)
        if a is None:
            return
        r = self.refs[a]
        m = min(b.shape[0] for b in r.blocks.values())
        self.emit({"op": "get_one", "a": a, "idx": self.rng.randrange(m), "keepdims": self.rng.random() < 0.5, "out": self.fresh()})

    def g_empty(self):
        a = self.pick()
        if a is not None:
            self.emit({"op": "empty", "a": a, "out": self.fresh()})

    def g_copy(self):
        a = self.pick()
        if a is not None:
            self.emit({"op": "copy", "a": a, "out": self.fresh()})

    def g_drop(self):
        if len(self.refs) > 5:
            a = self.pick()
            self.emit({"op": "drop", "reg": a})

    # observers
    def g_obs_group(self):
        a = self.pick(lambda r: len(r.blocks) >= 1)
        if a is not None:
            self.emit({"op": "obs_group", "a": a, "g": self.rng.randrange(len(group(self.D)))})

    def g_obs_norm(self):
        a = self.pick(lambda r: len(r.blocks) >= 1 and r.n_lead() >= 1)
        if a is not None:
            self.emit({"op": "obs_norm", "a": a})

    def g_obs_pool(self):
        a = self.pick(lambda r: len(r.blocks) >= 1 and r.D >= 2 and all(s % 2 == 0 for s in r.spatial()))
        if a is not None:
            self.emit({"op": "obs_pool", "a": a, "patch": 2})

    def g_obs_component(self):
        a = self.pick(lambda r: len(r.blocks) >= 1 and r.n_lead() == 1)
        if a is None:
            return
        r = self.refs[a]
        g = 0
        for b in r.blocks.values():
            g = math.gcd(g, b.shape[0])
        fs = self.rng.choice([d for d in range(1, g + 1) if g % d == 0])
        total = sum((b.shape[0] // fs) * self.D ** t[0] for t, b in r.blocks.items())
        self.emit({"op": "obs_component", "a": a, "component": self.rng.randrange(total), "future_steps": fs})

    def g_obs_batch_component(self):
        a = self.pick(lambda r: len(r.blocks) >= 1 and r.n_lead() == 2 and r.batch_uniform())
        if a is None:
            return
        r = self.refs[a]
        g = 0
        for b in r.blocks.values():
            g = math.gcd(g, b.shape[1])
        fs = self.rng.choice([d for d in range(1, g + 1) if g % d == 0])
        total = sum((b.shape[1] // fs) * self.D ** t[0] for t, b in r.blocks.items())
        if self.rng.random() < 0.4:
            comp: Any = self.rng.randrange(total)
        else:
            lo = self.rng.randrange(total)
            comp = [lo, self.rng.randint(lo + 1, total)]
        self.emit({"op": "obs_batch_component", "a": a, "component": comp, "future_steps": fs})

    def g_obs_images(self):
        a = self.pick(lambda r: len(r.blocks) >= 1)
        if a is not None:
            self.emit({"op": "obs_images", "a": a})

    def g_loss(self):
        # prediction/target with (batch, channel) leading axes built by independent histories
        a = self.pick(lambda r: len(r.blocks) >= 1 and r.n_lead() == 2 and r.first_axis_uniform() and r.max_abs() <= 64)
        if a is None:
            a = self.gen_new(n_lead=2)
        ra = self.refs[a]
        cands = [i for i, r in self.refs.items() if i != a and r.same_layout(ra) and r.is_torus == ra.is_torus and r.max_abs() <= 64]
        if cands and self.rng.random() < 0.5:
            b = self.rng.choice(sorted(cands))
        else:
            b = self.gen_new(like=ra)
            if self.rng.random() < 0.4:
                self.emit({"op": "transport", "reg": b, "kind": self.rng.choice(["tree", "jit", "copy", "vmap"])})
        if self.rng.random() < 0.15:
            b2 = self.fresh()
            self.emit({"op": "copy", "a": a, "out": b2})
            perm = list(range(len(ra.blocks)))
            self.rng.shuffle(perm)
            self.emit({"op": "transport", "reg": b2, "kind": "reinsert", "perm": perm})
            b = b2
        g = 0
        for blk in ra.blocks.values():
            g = math.gcd(g, blk.shape[1])
        n_steps = self.rng.choice([d for d in range(1, g + 1) if g % d == 0])
        which = self.rng.choice(["smse", "smse", "timestep", "timestep", "normalized"])
        reduce = {"smse": ["mean", None], "timestep": ["mean", "max", None], "normalized": ["mean"]}[which]
        red = self.rng.choice(reduce)
        # where the loss is evaluated: eagerly, under jit (its arguments are tracers and arrive in sorted
        # order), or inside the pmapped evaluation of the real map_loss_in_batches (C18 in situ)
        ctx = self.rng.choice(["eager", "eager", "eager", "jit", "in_batches"])
        L = next(iter(ra.blocks.values())).shape[0]
        extra = {}
        if ctx == "in_batches":
            if red != "mean":
                ctx = "jit"
            else:
                ndev = self.rng.choice([n for n in (1, 2, 4) if n <= L])
                B = ndev * self.rng.randint(1, max(1, L // ndev))
                keyed = self.rng.random() < 0.5 and L % B == 0  # a shuffled epoch has a defined mean only when nothing is dropped
                extra = {"ndev": ndev, "B": B, "key": self.rng.getrandbits(31) if keyed else None}
        self.emit({"op": "loss", "a": a, "b": b, "which": which, "reduce": red, "n_steps": n_steps, "g": self.rng.randrange(len(group(self.D))),
                   "eps": self.rng.choice([None, None, 1e-5, 1e-2, 0.5]), "ctx": ctx, **extra})


_GROUPS: dict = {}


def group(D: int) -> list:
    if D not in _GROUPS:
        _GROUPS[D] = [np.asarray(g) for g in geom.make_all_operators(D)]
    return _GROUPS[D]


def gen_plan(rng, profile: dict, seed: int) -> dict:
    g = Gen(rng, profile)
    n_ops = rng.randint(profile.get("min_ops", 8), profile.get("max_ops", 40))
    g.gen_new()
    guard = 0
    while len(g.ops) < n_ops and guard < n_ops * 4:
        guard += 1
        g.step()
    return {"D": g.D, "ops": g.ops}


def plan_size(plan: dict) -> int:
    return len(plan["ops"])


# --------------------------------------------------------------------------- reference semantics
def apply_ref(op: dict, refs: dict, D: int) -> bool:
    """Apply op to the reference registers. Returns False if a precondition fails (op is a no-op)."""
    try:
        return _apply_ref(op, refs, D)
    except (KeyError, IndexError, ValueError, AssertionError):
        return False


def _need(refs, *ids):
    for i in ids:
        if i not in refs:
            raise KeyError(i)


def _apply_ref(op: dict, refs: dict, D: int) -> bool:
    o = op["op"]
    if o == "new":
        blocks = {}
        for k, p, c in op["sig"]:
            if D == 1 and k != 0:
                return False
            blocks[(k, p)] = block_values(op["vseed"], (k, p), block_shape(tuple(op["lead"]), c, tuple(op["spatial"]), D, k))
        if len(blocks) != len(op["sig"]) or not blocks:
            return False
        if op["how"] == "from_images":
            if len(op["lead"]) != 0 or any(c is None for _, _, c in op["sig"]):
                return False
            order = op.get("image_order", [])
            if sorted(order) != sorted(i for i, (_, _, c) in enumerate(op["sig"]) for _ in range(c)):
                return False
            ax2 = op.get("images_lead2_axis")
            if ax2 is not None:
                # every image becomes a (1,1,...) block, appended along `axis`: (c,1,...) or (1,c,...)
                blocks = {t: (v[:, None] if ax2 == 0 else v[None]) for t, v in blocks.items()}
        refs[op["out"]] = RefMI(blocks, D, tuple(op["is_torus"]))
        return True
    if o == "new_shaped":
        blocks = {}
        for k, p, shp in op["blocks"]:
            blocks[(k, p)] = block_values(op["vseed"], (k, p), tuple(shp))
        if len(blocks) != len(op["blocks"]) or not blocks:
            return False
        refs[op["out"]] = RefMI(blocks, D, tuple(op["is_torus"]))
        return True
    if o == "transport":
        _need(refs, op["reg"])
        r = refs[op["reg"]]
        if not r.blocks:
            return False
        if op["kind"] == "vmap" and not r.first_axis_uniform():
            return False
        if op["kind"] == "reinsert" and sorted(op["perm"]) != list(range(len(r.blocks))):
            return False
        return True
    if o in ("add", "sub"):
        _need(refs, op["a"], op["b"])
        a, b = refs[op["a"]], refs[op["b"]]
        if a.D != b.D:
            return False
        if a.types() != b.types() or a.is_torus != b.is_torus:
            return True  # no output register: the operation must be rejected
        if not a.same_layout(b):
            return False
        f = np.add if o == "add" else np.subtract
        refs[op["out"]] = RefMI({t: f(a.blocks[t], b.blocks[t]) for t in a.blocks}, D, a.is_torus)
        return True
    if o in ("mul", "div"):
        _need(refs, op["a"])
        a = refs[op["a"]]
        s = np.float32(op["s"])
        refs[op["out"]] = RefMI({t: (v * s if o == "mul" else v / s) for t, v in a.blocks.items()}, D, a.is_torus)
        return True
    if o == "eq":
        _need(refs, op["a"], op["b"])
        a, b = refs[op["a"]], refs[op["b"]]
        if a.types() == b.types() and a.is_torus == b.is_torus and not a.same_layout(b):
            return False
        return True
    if o == "copy":
        _need(refs, op["a"])
        refs[op["out"]] = refs[op["a"]].copy()
        return True
    if o == "setitem":
        _need(refs, op["reg"])
        r = refs[op["reg"]]
        t = (op["k"], op["p"])
        if t not in r.blocks or r.blocks[t].size == 0:
            return False
        nb = (r.blocks[t] * np.float32(op["scale"])).astype(np.float32).copy()
        nb.reshape(-1)[0] += np.float32(op["delta"])
        nr = r.copy()
        nr.blocks[t] = nb
        refs[op["reg"]] = nr
        return True
    if o in ("obs_bigint", "obs_loss_near", "obs_x64", "obs_norm_gap"):
        return D >= 1
    if o == "empty":
        _need(refs, op["a"])
        refs[op["out"]] = RefMI({}, D, refs[op["a"]].is_torus)
        return True
    if o == "drop":
        _need(refs, op["reg"])
        del refs[op["reg"]]
        return True
    if o == "append":
        _need(refs, op["reg"])
        r = refs[op["reg"]]
        t = (op["k"], op["p"])
        shp = tuple(op["shape"])
        if D == 1 and t[0] != 0:
            return False
        if t[0] > 0 and shp[-t[0] :] != (D,) * t[0]:
            return False
        blk = block_values(op["vseed"], t, shp)
        nl = r.n_lead()
        if r.blocks:
            if blk.ndim - D - t[0] != nl:
                return False
            if blk.shape[nl : nl + D] != r.spatial():
                return False
            if not (op["axis"] < nl):
                return False
        if t in r.blocks:
            cur = r.blocks[t]
            ax = op["axis"]
            if cur.shape[:ax] + cur.shape[ax + 1 :] != blk.shape[:ax] + blk.shape[ax + 1 :]:
                return False
            new = np.concatenate([cur, blk], axis=ax)
        else:
            if r.blocks and nl >= 2:
                t0 = sorted(r.blocks)[0]
                if r.lead_shape(t0)[:-1] != blk.shape[: nl - 1]:
                    return False
            new = blk
        nr = r.copy()
        nr.blocks[t] = new
        refs[op["reg"]] = nr
        return True
    if o == "concat":
        _need(refs, op["a"], op["b"])
        a, b = refs[op["a"]], refs[op["b"]]
        ax = op["axis"]
        if a.is_torus != b.is_torus:
            return False
        if not a.blocks or not b.blocks:
            # concatenating with an empty multi-image (the reduce(..., ls[0].empty()) pattern): a new object with the
            # blocks of the non-empty side; needs axis 0 semantics only (nothing is concatenated)
            src = b if not a.blocks else a
            if not src.blocks or ax >= max(src.n_lead(), 1):
                return False
            refs[op["out"]] = RefMI(dict(src.blocks), D, a.is_torus)
            return True
        if a.n_lead() != b.n_lead() or ax >= a.n_lead():
            return False
        if a.spatial() != b.spatial():
            return False
        out = dict(a.blocks)
        nl = a.n_lead()
        for t, v in b.blocks.items():
            if t in out:
                cur = out[t]
                if cur.shape[:ax] + cur.shape[ax + 1 :] != v.shape[:ax] + v.shape[ax + 1 :]:
                    return False
                out[t] = np.concatenate([cur, v], axis=ax)
            else:
                t0 = next(iter(a.blocks))
                la, lb = list(a.lead_shape(t0)), list(v.shape[:nl])
                # all leading axes except the channel axis must agree
                if la[: nl - 1] != lb[: nl - 1]:
                    return False
                out[t] = v
        refs[op["out"]] = RefMI(out, D, a.is_torus)
        return True
    if o == "concat_inverse":
        _need(refs, op["a"])
        a = refs[op["a"]]
        ax = op["axis"]
        if ax >= a.n_lead() or not a.blocks:
            return False
        sig = {(k, p): s for k, p, s in op["sig"]}
        if len(sig) != len(op["sig"]):
            return False
        if not op.get("as_dict") and ax != a.n_lead() - 1:
            pass  # a tuple signature is legal for any axis, the docstring only says what get_signature returns
        A, B = {}, {}
        for t, v in a.blocks.items():
            size = sig.get(t, 0)
            n = v.shape[ax]
            if not (0 <= size <= n):
                return False
            if size == 0:
                A[t] = v
            elif size == n:
                B[t] = v
            else:
                sl = [slice(None)] * v.ndim
                sl[ax] = slice(0, n - size)
                A[t] = v[tuple(sl)]
                sl[ax] = slice(n - size, n)
                B[t] = v[tuple(sl)]
        refs[op["out_a"]] = RefMI(A, D, a.is_torus)
        refs[op["out_b"]] = RefMI(B, D, a.is_torus)
        return True
    if o == "expand":
        _need(refs, op["a"])
        a = refs[op["a"]]
        ax, size = op["axis"], op["size"]
        if ax >= a.n_lead() or not a.blocks or any(v.shape[ax] % size for v in a.blocks.values()):
            return False
        refs[op["out"]] = RefMI({t: v.reshape(v.shape[:ax] + (-1, size) + v.shape[ax + 1 :]) for t, v in a.blocks.items()}, D, a.is_torus)
        return True
    if o in ("combine_axes", "merge_axes"):
        _need(refs, op["a"])
        a = refs[op["a"]]
        axes = op["axes"]
        if len(axes) < 2 or axes != list(range(axes[0], axes[-1] + 1)) or axes[-1] >= a.n_lead() or not a.blocks:
            return False
        f, l = axes[0], axes[-1]
        refs[op["out"]] = RefMI({t: v.reshape(v.shape[:f] + (-1,) + v.shape[l + 1 :]) for t, v in a.blocks.items()}, D, a.is_torus)
        return True
    if o == "reshape_pmap":
        _need(refs, op["a"])
        a = refs[op["a"]]
        if not a.first_axis_uniform():
            return False
        n = op["n"]
        ax = op.get("axis", 0)
        L = next(iter(a.blocks.values())).shape[0]
        if L % n or ax >= a.n_lead():
            return False
        if ax != 0 and any(v.shape[ax] != L for v in a.blocks.values()):
            return False  # the method splits `axis` using get_L(), the size of the first axis: only defined when they agree
        refs[op["out"]] = RefMI({t: v.reshape(v.shape[:ax] + (n, L // n) + v.shape[ax + 1 :]) for t, v in a.blocks.items()}, D, a.is_torus)
        return True
    if o in ("vector_rt", "scalar_rt", "images_rt"):
        _need(refs, op["a"])
        a = refs[op["a"]]
        if not a.blocks:
            return False
        if o == "scalar_rt" and (a.n_lead() < 1 or not a.batch_uniform()):
            return False
        if o == "images_rt" and a.n_lead() != 1:
            return False
        refs[op["out"]] = a.copy()
        return True
    if o == "get_subset":
        _need(refs, op["a"])
        a = refs[op["a"]]
        if not a.blocks or a.n_lead() < 1:
            return False
        idxs = np.asarray(op["idxs"], dtype=np.int32)
        if len(idxs) == 0 or any(i >= v.shape[0] for v in a.blocks.values() for i in op["idxs"]):
            return False
        refs[op["out"]] = RefMI({t: v[idxs] for t, v in a.blocks.items()}, D, a.is_torus)
        return True
    if o == "get_one":
        _need(refs, op["a"])
        a = refs[op["a"]]
        if not a.blocks or a.n_lead() < 1 or any(op["idx"] >= v.shape[0] for v in a.blocks.values()):
            return False
        if op["keepdims"]:
            refs[op["out"]] = RefMI({t: v[op["idx"] : op["idx"] + 1] for t, v in a.blocks.items()}, D, a.is_torus)
        else:
            refs[op["out"]] = RefMI({t: v[op["idx"]] for t, v in a.blocks.items()}, D, a.is_torus)
        return True
    if o == "obs_group":
        _need(refs, op["a"])
        return bool(refs[op["a"]].blocks) and op["g"] < len(group(D))
    if o == "obs_norm":
        _need(refs, op["a"])
        a = refs[op["a"]]
        return bool(a.blocks) and a.n_lead() >= 1 and a.batch_uniform()
    if o == "obs_pool":
        _need(refs, op["a"])
        a = refs[op["a"]]
        return bool(a.blocks) and D >= 2 and all(s % op["patch"] == 0 for s in a.spatial())  # the single-image op supports D in {2,3}
    if o == "obs_component":
        _need(refs, op["a"])
        a = refs[op["a"]]
        if not a.blocks or a.n_lead() != 1:
            return False
        fs = op["future_steps"]
        if any(v.shape[0] % fs for v in a.blocks.values()):
            return False
        total = sum((v.shape[0] // fs) * D ** t[0] for t, v in a.blocks.items())
        return op["component"] < total
    if o == "obs_batch_component":
        _need(refs, op["a"])
        a = refs[op["a"]]
        if not a.blocks or a.n_lead() != 2 or not a.batch_uniform():
            return False
        fs = op["future_steps"]
        if any(v.shape[1] % fs for v in a.blocks.values()):
            return False
        total = sum((v.shape[1] // fs) * D ** t[0] for t, v in a.blocks.items())
        c = op["component"]
        return (c < total) if isinstance(c, int) else (0 <= c[0] < c[1] <= total)
    if o == "obs_images":
        _need(refs, op["a"])
        return bool(refs[op["a"]].blocks)
    if o == "loss":
        _need(refs, op["a"], op["b"])
        a, b = refs[op["a"]], refs[op["b"]]
        if not a.blocks or a.n_lead() != 2 or not a.same_layout(b) or a.is_torus != b.is_torus or not a.first_axis_uniform():
            return False
        if a.max_abs() > 64 or b.max_abs() > 64:
            return False
        if op["which"] == "timestep" and any(v.shape[1] % op["n_steps"] for v in a.blocks.values()):
            return False
        return op["g"] < len(group(D))
    raise ValueError(f"unknown op {o}")


# --------------------------------------------------------------------------- real execution
_JIT_ID = jax.jit(lambda m: m)


def _build_new(op: dict, D: int):
    is_torus = tuple(op["is_torus"])
    blocks = []
    for k, p, c in op["sig"]:
        blocks.append(((k, p), jnp.asarray(block_values(op["vseed"], (k, p), block_shape(tuple(op["lead"]), c, tuple(op["spatial"]), D, k))).astype(op.get("dtype", "float32"))))
    how = op["how"]
    if how == "ctor":
        return geom.MultiImage({t: v for t, v in blocks}, D, is_torus)
    if how == "append":
        m = geom.MultiImage({}, D, is_torus)
        for (k, p), v in blocks:
            m.append(k, p, v)
        return m
    if how == "from_images":
        cursors = [0] * len(blocks)
        images = []
        for i in op["image_order"]:
            (k, p), v = blocks[i]
            images.append(geom.GeometricImage(v[cursors[i]], p, D, is_torus))
            cursors[i] += 1
        if op.get("images_lead2_axis") is not None:
            return geom.MultiImage.from_images(images, n_lead_axes=2, axis=op["images_lead2_axis"])
        return geom.MultiImage.from_images(images)
    raise ValueError(how)


def _transport(m, op):
    kind = op["kind"]
    if kind == "tree":
        leaves, treedef = jax.tree_util.tree_flatten(m)
        return jax.tree_util.tree_unflatten(treedef, leaves)
    if kind == "jit":
        return _JIT_ID(m)
    if kind == "vmap":
        return jax.vmap(lambda x: x)(m)
    if kind == "copy":
        return m.copy()
    if kind == "reinsert":
        items = list(m.items())
        return geom.MultiImage({items[i][0]: items[i][1] for i in op["perm"]}, m.D, m.is_torus)
    raise ValueError(kind)


def compare(real, ref: RefMI) -> Optional[str]:
    if not isinstance(real, geom.MultiImage):
        return f"not a MultiImage: {type(real)}"
    if real.D != ref.D:
        return f"D {real.D} != {ref.D}"
    if tuple(real.is_torus) != ref.is_torus:
        return f"is_torus {real.is_torus} != {ref.is_torus}"
    if set(real.keys()) != ref.types():
        return f"types {sorted(real.keys())} != {sorted(ref.types())}"
    for t in ref.blocks:
        got = np.asarray(real[t])
        want = ref.blocks[t]
        if got.shape != want.shape:
            return f"type {t}: shape {got.shape} != {want.shape}"
        if not np.array_equal(got, want):
            bad = np.argwhere(got != want)
            i = tuple(int(x) for x in bad[0])
            return f"type {t}: {len(bad)} of {want.size} entries differ, first at {i}: got {got[i]} want {want[i]}"
    return None


def _order(m) -> list:
    return [list(t) for t in m.keys()]


def setup(job: dict, widx: int) -> dict:
    return {}


class _Stop(Exception):
    pass


class _ObserverFailed(Exception):
    pass


def execute(plan: dict, ctx: dict) -> dict:
    D = plan["D"]
    log = EventLog(plan.get("seed", 0))
    refs: dict[int, RefMI] = {}
    regs: dict[int, Any] = {}
    violations: list[dict] = []
    counters: dict[str, int] = {}
    evals = 0
    kinds: list[str] = []
    transports = 0

    def bump(k, n=1):
        counters[k] = counters.get(k, 0) + n

    def viol(prop, clause, detail, site):
        violations.append(Violation(prop, clause, detail, site).to_json())

    def check_all(step_i, op, touched_prop):
        nonlocal evals
        for rid in sorted(regs):
            evals += 1
            err = compare(regs[rid], refs[rid])
            if err is not None:
                prop, clause = touched_prop
                viol(prop, clause, {"step": step_i, "op": _short(op), "register": rid, "error": err, "order": _order(regs[rid])}, _site(op, regs, refs))
                raise _Stop()

    try:
        for i, op in enumerate(plan["ops"]):
            trial = dict(refs)
            if not apply_ref(op, trial, D):
                log.add("noop", op["op"])
                continue
            o = op["op"]
            kinds.append(o if o != "transport" else "transport:" + op["kind"])
            log.add("op", _short(op))
            try:
                prop_clause = _run_real(op, regs, trial, D, bump, viol, log)
            except _ObserverFailed:
                prop_clause = PROP_OF[op["op"]]
                if len(violations) >= 4:
                    raise _Stop()
            refs.clear()
            refs.update(trial)
            for rid in list(regs):
                if rid not in refs:
                    del regs[rid]
            if o == "transport":
                transports += 1
            check_all(i, op, prop_clause)
    except _Stop:
        pass
    for rid in sorted(set(regs) & set(refs)):
        for t in sorted(refs[rid].blocks):
            log.add("final", arr_bytes(np.asarray(regs[rid][t])) if t in regs[rid] else b"missing")
    return {
        "digest": log.digest(),
        "evaluations": evals,
        "counters": counters,
        "faults": {k: v for k, v in counters.items() if k.startswith("transport_")},
        "kinds": kinds,
        "shape": shape_hash(kinds),
        "nontrivial": transports > 0 or counters.get("orders_differ", 0) > 0,
        "violations": violations,
        "trace_head": log.head,
    }


def _short(op: dict) -> dict:
    return {k: v for k, v in op.items() if k not in ("vseed",)}


def _site(op: dict, regs: dict, refs: dict) -> str:
    o = op["op"]
    s = o
    if o == "transport":
        s += ":" + op["kind"]
    if o in ("add", "sub", "eq", "loss"):
        a, b = regs.get(op["a"]), regs.get(op["b"])
        if a is not None and b is not None:
            s += "/orders_differ" if list(a.keys()) != list(b.keys()) else "/orders_equal"
    if o == "loss":
        s = f"loss:{op['which']}" + s[4:]
    return s


PROP_OF = {
    "add": ("C12", "pairing"), "sub": ("C12", "pairing"), "mul": ("C12", "scalar"), "div": ("C12", "scalar"), "eq": ("C12", "equality"),
    "transport": ("C13", "transport"), "copy": ("C13", "copy"), "empty": ("C13", "empty"), "vector_rt": ("C13", "vector_roundtrip"), "scalar_rt": ("C13", "scalar_roundtrip"),
    "images_rt": ("C13", "images_roundtrip"), "concat": ("C13", "concat"), "concat_inverse": ("C13", "concat_inverse"), "expand": ("C13", "expand"),
    "combine_axes": ("C13", "combine_axes"), "merge_axes": ("C13", "merge_axes"), "reshape_pmap": ("C13", "reshape_pmap"),
    "new": ("C13", "construct"), "new_shaped": ("C13", "construct"), "append": ("C13", "append"), "setitem": ("C13", "setitem"), "obs_bigint": ("C12", "integer_arithmetic"), "obs_loss_near": ("C18", "definition_near_target"), "obs_x64": ("C18", "definition_float64"), "obs_norm_gap": ("C14", "norm_magnitude_gap"), "get_subset": ("C13", "subset"), "get_one": ("C13", "subset"),
    "drop": ("C13", "aliasing"), "obs_group": ("C14", "group_action"), "obs_norm": ("C14", "norm"), "obs_pool": ("C14", "average_pool"),
    "obs_component": ("C14", "get_component"), "obs_batch_component": ("C14", "batch_get_component"), "obs_images": ("C14", "to_images"), "loss": ("C18", "loss"),
}


def _run_real(op, regs, refs_after, D, bump, viol, log):
    """Apply op to the real registers. refs_after already holds the post-state of the reference."""
    o = op["op"]
    pc = PROP_OF[o]

    def fail(clause, detail, prop=None):
        viol(prop or pc[0], clause, detail, _site(op, regs, refs_after))
        if o.startswith("obs_") or o in ("loss", "eq"):  # observers leave the registers alone
            raise _ObserverFailed()  # registers are untouched: the history goes on
        raise _Stop()

    def guarded(fn, what):
        try:
            return fn()
        except (_Stop, _ObserverFailed):
            raise
        except Exception as e:
            fail("raises", {"op": _short(op), "what": what, "error": f"{type(e).__name__}: {str(e)[:300]}"})

    if o == "new":
        regs[op["out"]] = guarded(lambda: _build_new(op, D), "construct")
        bump("new_" + op["how"])
    elif o == "new_shaped":
        def build():
            items = [((k, p), jnp.asarray(block_values(op["vseed"], (k, p), tuple(shp)))) for k, p, shp in op["blocks"]]
            if op.get("how") == "append":
                m = geom.MultiImage({}, D, tuple(op["is_torus"]))
                for (k, p), v in items:
                    m.append(k, p, v)
                return m
            return geom.MultiImage(dict(items), D, tuple(op["is_torus"]))

        regs[op["out"]] = guarded(build, "construct")
    elif o == "transport":
        m = regs[op["reg"]]
        before = list(m.keys())
        regs[op["reg"]] = guarded(lambda: _transport(m, op), "transport")
        bump("transport_" + op["kind"])
        if list(regs[op["reg"]].keys()) != before:
            bump("transport_reordered")
    elif o in ("add", "sub"):
        a, b = regs[op["a"]], regs[op["b"]]
        differ = list(a.keys()) != list(b.keys())
        if op["out"] not in refs_after:  # reference says: must be rejected
            bump("mismatch_ops")
            try:
                res = (a + b) if o == "add" else (a - b)
            except Exception:
                bump("mismatch_rejected")
                return pc
            fail("not_rejected", {"op": _short(op), "a_types": _order(a), "b_types": _order(b), "a_torus": a.is_torus, "b_torus": b.is_torus})
        if differ:
            bump("orders_differ")
        sizes = [int(np.prod(v.shape)) for v in a.values()]
        if len(set(sizes)) < len(sizes):
            bump("equal_block_sizes")
        bump("binary_ops")
        regs[op["out"]] = guarded(lambda: (a + b) if o == "add" else (a - b), "arith")
    elif o in ("mul", "div"):
        a = regs[op["a"]]
        sv: Any = op["s"]
        rep = op.get("srepr", "float")
        if rep == "np32":
            sv = np.float32(sv)
        elif rep == "jax0d":
            sv = jnp.asarray(sv, dtype=jnp.float32)
        elif rep == "int" and float(sv).is_integer():
            sv = int(sv)
        bump("scalar_repr_" + rep)
        regs[op["out"]] = guarded(lambda: (a * sv) if o == "mul" else (a / sv), "scalar")
    elif o == "eq":
        a, b = regs[op["a"]], regs[op["b"]]
        ra, rb = refs_after[op["a"]], refs_after[op["b"]]
        want = (
            ra.D == rb.D and ra.is_torus == rb.is_torus and ra.types() == rb.types()
            and all(np.allclose(ra.blocks[t], rb.blocks[t], rtol=TINY, atol=TINY) for t in ra.blocks)
        )
        if list(a.keys()) != list(b.keys()):
            bump("orders_differ")
        got = guarded(lambda: a == b, "eq")
        bump("eq_true" if want else "eq_false")
        if bool(got) != want:
            fail("equality", {"got": bool(got), "want": want, "a_order": _order(a), "b_order": _order(b)})
    elif o == "copy":
        regs[op["out"]] = guarded(lambda: regs[op["a"]].copy(), "copy")
    elif o == "empty":
        regs[op["out"]] = guarded(lambda: regs[op["a"]].empty(), "empty")
    elif o == "drop":
        del regs[op["reg"]]
    elif o == "append":
        m = regs[op["reg"]]
        blk = jnp.asarray(block_values(op["vseed"], (op["k"], op["p"]), tuple(op["shape"])))
        guarded(lambda: m.append(op["k"], op["p"], blk, axis=op["axis"]), "append")
    elif o == "setitem":
        m = regs[op["reg"]]
        t = (op["k"], op["p"])

        def f():
            blk = m[t] * np.float32(op["scale"])
            blk = blk.reshape(-1).at[0].add(np.float32(op["delta"])).reshape(blk.shape)
            m[t] = blk

        guarded(f, "setitem")
    elif o == "obs_bigint":
        # integer blocks far beyond 2^24: + and - must be exact integer arithmetic, block by block
        rs = np.random.RandomState(op["vseed"])
        types = [(0, 0), (0, 1), (1, 0)][: op["types"]] if D >= 2 else [(0, 0), (0, 1)][: min(op["types"], 2)]
        sp = (2,) * D
        av = {t: (2_000_000_000 + rs.randint(0, 1000, size=(2,) + sp + (D,) * t[0])).astype(np.int32) for t in types}
        bv = {t: (1_999_999_000 + rs.randint(0, 1000, size=(2,) + sp + (D,) * t[0])).astype(np.int32) for t in types}
        a = geom.MultiImage({t: jnp.asarray(v) for t, v in av.items()}, D, True)
        order = list(reversed(types)) if op["swap"] else types
        b = geom.MultiImage({t: jnp.asarray(bv[t]) for t in order}, D, True)
        bump("obs_bigint")
        diff = guarded(lambda: a - b, "sub")
        for t in types:
            want = av[t].astype(np.int64) - bv[t].astype(np.int64)
            got = np.asarray(diff[t]).astype(np.float64)
            if not np.array_equal(got, want.astype(np.float64)):
                fail("integer_arithmetic", {"op": "sub", "type": list(t), "dtype": str(np.asarray(diff[t]).dtype), "first_got": float(got.reshape(-1)[0]), "first_want": int(want.reshape(-1)[0])})
    elif o == "obs_loss_near":
        _loss_near(op, D, bump, fail, guarded)
    elif o == "obs_x64":
        _x64(op, D, bump, fail, guarded)
    elif o == "obs_norm_gap":
        # entries (batch entries / channels) of very different magnitude in one block, each harmless alone: the norm of the
        # small one must be what it is alone (a block-wide scale, max or sum would flush it)
        rs = np.random.RandomState(op["vseed"])
        k, nl = (op["k"] if D >= 2 else 0), op["n_lead"]
        lead = (2, 2) if nl == 2 else (2,)
        ints = rs.randint(1, 8, size=lead + (2,) * D + (D,) * k).astype(np.float32)
        scale = np.ones(lead + (1,) * (D + k), dtype=np.float32)
        scale[0] = np.float32(2.0) ** op["lo_exp"]
        scale[1] = np.float32(2.0) ** op["hi_exp"]
        blk = ints * scale
        m = geom.MultiImage({(k, 0): jnp.asarray(blk)}, D, True)
        res = guarded(lambda: m.norm(), "norm")
        bump("obs_norm_gap")
        flat = blk.reshape((-1,) + blk.shape[nl:])
        single = np.stack([np.asarray(geom.GeometricImage(jnp.asarray(flat[j]), 0, D, True).norm().data) for j in range(flat.shape[0])]).reshape(lead + (2,) * D)
        got = np.asarray(res[(0, 0)]) if (0, 0) in res else None
        if got is None or got.shape != single.shape or not np.all(np.abs(got - single) <= 1e-6 * np.abs(single)):
            fail("norm_magnitude_gap", {"lo_exp": op["lo_exp"], "hi_exp": op["hi_exp"], "n_lead": nl, "k": k,
                                        "max_rel_dev": None if got is None or got.shape != single.shape else float(np.max(np.abs(got - single) / np.abs(single)))}, "C14")
    elif o == "concat":
        a, b = regs[op["a"]], regs[op["b"]]
        regs[op["out"]] = guarded(lambda: a.concat(b, axis=op["axis"]), "concat")
    elif o == "concat_inverse":
        a = regs[op["a"]]
        if op.get("as_dict"):
            sig: Any = {(k, p): s for k, p, s in op["sig"]}
        else:
            sig = tuple(((k, p), s) for k, p, s in op["sig"])
        ra, rb = guarded(lambda: a.concat_inverse(sig, axis=op["axis"]), "concat_inverse")
        regs[op["out_a"]], regs[op["out_b"]] = ra, rb
        if "expect_a" in op and op["expect_a"] in refs_after and op["expect_b"] in refs_after:
            bump("concat_roundtrips")
            ea, eb = refs_after[op["expect_a"]], refs_after[op["expect_b"]]
            for got, want, nm in ((ra, ea, "a"), (rb, eb, "b")):
                err = compare(got, want)
                if err is not None:
                    fail("concat_roundtrip", {"which": nm, "error": err, "axis": op["axis"]})
    elif o == "expand":
        regs[op["out"]] = guarded(lambda: regs[op["a"]].expand(op["axis"], op["size"]), "expand")
    elif o == "combine_axes":
        regs[op["out"]] = guarded(lambda: regs[op["a"]].combine_axes(tuple(op["axes"])), "combine_axes")
    elif o == "merge_axes":
        regs[op["out"]] = guarded(lambda: regs[op["a"]].merge_axes(list(op["axes"])), "merge_axes")
    elif o == "reshape_pmap":
        regs[op["out"]] = guarded(lambda: regs[op["a"]].reshape_pmap(devices(op["n"]), axis=op.get("axis", 0)), "reshape_pmap")
    elif o == "vector_rt":
        a = regs[op["a"]]

        def f():
            v = a.to_vector()
            if v.shape != (a.size(),):
                fail("vector_size", {"vector": list(v.shape), "size": a.size()})
            tmpl = a if op["template"] == "self" else a.copy()
            return geom.MultiImage.from_vector(v, tmpl)

        regs[op["out"]] = guarded(f, "vector_rt")
    elif o == "scalar_rt":
        a = regs[op["a"]]

        def f():
            s = a.to_scalar_multi_image()
            if list(s.keys()) != [(0, 0)]:
                fail("scalar_types", {"keys": _order(s)})
            want_c = sum(v.shape[a.get_n_leading() - 1] * D ** k for (k, _), v in a.items())
            nl = a.get_n_leading()
            if s[(0, 0)].shape[nl - 1] != want_c:
                fail("scalar_channels", {"got": list(s[(0, 0)].shape), "want_channels": want_c})
            return s.from_scalar_multi_image(a.get_signature())

        regs[op["out"]] = guarded(f, "scalar_rt")
    elif o == "images_rt":
        a = regs[op["a"]]

        def f():
            imgs = a.to_images()
            # compared per type, in order
            cursor: dict = {}
            for img in imgs:
                t = (img.k, img.parity)
                j = cursor.get(t, 0)
                cursor[t] = j + 1
                if not np.array_equal(np.asarray(img.data), np.asarray(a[t][j])) or img.D != a.D or tuple(img.is_torus) != tuple(a.is_torus):
                    fail("to_images", {"type": t, "index": j})
            return geom.MultiImage.from_images(imgs)

        regs[op["out"]] = guarded(f, "images_rt")
    elif o == "get_subset":
        regs[op["out"]] = guarded(lambda: regs[op["a"]].get_subset(jnp.asarray(op["idxs"])), "get_subset")
    elif o == "get_one":
        regs[op["out"]] = guarded(lambda: regs[op["a"]].get_one(op["idx"], keepdims=op["keepdims"]), "get_one")
    elif o == "obs_group":
        a = regs[op["a"]]
        gg = group(D)[op["g"]]
        res = guarded(lambda: a.times_group_element(gg), "times_group_element")
        nl = a.get_n_leading()
        bump("obs_group")
        if len(set(a.get_spatial_dims())) > 1:
            bump("obs_group_nonsquare")
        for (k, p), blk in a.items():
            if (k, p) not in res:
                fail("group_action", {"missing": [k, p]})
            flat = blk.reshape((-1,) + blk.shape[nl:])
            single = [np.asarray(geom.GeometricImage(flat[j], p, D, a.is_torus).times_group_element(gg).data) for j in range(flat.shape[0])]
            want = np.stack(single).reshape(blk.shape[:nl] + single[0].shape)
            got = np.asarray(res[(k, p)])
            if got.shape != want.shape or not np.array_equal(got, want):
                fail("group_action", {"type": [k, p], "g": gg.tolist(), "got_shape": list(got.shape), "want_shape": list(want.shape), "n_lead": nl, "spatial": list(a.get_spatial_dims())})
        if res.D != a.D:
            fail("group_action", {"D": res.D})
    elif o == "obs_norm":
        a = regs[op["a"]]
        res = guarded(lambda: a.norm(), "norm")
        nl = a.get_n_leading()
        bump("obs_norm")
        parts = []
        for (k, p), blk in a.items():
            flat = blk.reshape((-1,) + blk.shape[nl:])
            single = [np.asarray(geom.GeometricImage(flat[j], p, D, a.is_torus).norm().data) for j in range(flat.shape[0])]
            parts.append(np.stack(single).reshape(blk.shape[:nl] + single[0].shape))
        want = np.concatenate(parts, axis=nl - 1)
        if list(res.keys()) != [(0, 0)]:
            fail("norm", {"keys": _order(res)})
        got = np.asarray(res[(0, 0)])
        if got.shape != want.shape or not np.array_equal(got, want):
            fail("norm", {"got_shape": list(got.shape), "want_shape": list(want.shape), "order": _order(a)})
    elif o == "obs_pool":
        a = regs[op["a"]]
        res = guarded(lambda: a.average_pool(op["patch"]), "average_pool")
        nl = a.get_n_leading()
        bump("obs_pool")
        for (k, p), blk in a.items():
            flat = blk.reshape((-1,) + blk.shape[nl:])
            single = [np.asarray(geom.average_pool(D, flat[j], op["patch"])) for j in range(flat.shape[0])]
            want = np.stack(single).reshape(blk.shape[:nl] + single[0].shape)
            got = np.asarray(res[(k, p)]) if (k, p) in res else None
            if got is None or got.shape != want.shape or not np.array_equal(got, want):
                fail("average_pool", {"type": [k, p], "n_lead": nl})
    elif o == "obs_component":
        a = regs[op["a"]]
        fs = op["future_steps"]
        res = guarded(lambda: a.get_component(op["component"], fs), "get_component")
        bump("obs_component")
        # definition: per type in sorted (k,parity) order - the order must not depend on the storage history, and it is the
        # order the batched variant sees - channels c=(C/fs), components row-major; pick flat index
        flat_list = []
        for (k, p), blk in sorted(a.items()):
            C = blk.shape[0] // fs
            x = np.asarray(blk).reshape((C, fs) + tuple(a.get_spatial_dims()) + (-1,))
            for c in range(C):
                for comp in range(x.shape[-1]):
                    flat_list.append(x[c, :, ..., comp])
        want = flat_list[op["component"]]
        got = np.asarray(res[(0, 0)])
        if got.shape != want.shape or not np.array_equal(got, want):
            fail("get_component", {"component": op["component"], "future_steps": fs, "order": _order(a)})
    elif o == "obs_batch_component":
        a = regs[op["a"]]
        fs = op["future_steps"]
        c = op["component"]
        comp = c if isinstance(c, int) else slice(c[0], c[1])
        res = guarded(lambda: a.batch_get_component(comp, fs), "batch_get_component")
        bump("obs_batch_component")
        B = a.get_L()
        # per batch entry: the single (un-batched) multi-image operation on that entry alone
        singles = [np.asarray(a.get_one(b, keepdims=False).get_component(comp, fs)[(0, 0)]) for b in range(B)]
        want = np.stack(singles)
        got = np.asarray(res[(0, 0)]) if (0, 0) in res else None
        if got is None or got.shape != want.shape or not np.array_equal(got, want):
            fail("batch_get_component", {"component": c, "future_steps": fs, "batch": B, "got_shape": None if got is None else list(got.shape), "want_shape": list(want.shape), "order": _order(a)})
    elif o == "obs_images":
        a = regs[op["a"]]
        imgs = guarded(lambda: a.to_images(), "to_images")
        bump("obs_images")
        nl = a.get_n_leading()
        pos = 0
        for (k, p), blk in a.items():
            flat = np.asarray(blk).reshape((-1,) + blk.shape[nl:])
            for j in range(flat.shape[0]):
                img = imgs[pos]
                pos += 1
                if (img.k, img.parity) != (k, p) or not np.array_equal(np.asarray(img.data), flat[j]) or img.D != D or tuple(img.is_torus) != tuple(a.is_torus):
                    fail("to_images", {"type": [k, p], "index": j})
        if pos != len(imgs):
            fail("to_images", {"count": len(imgs), "want": pos})
    elif o == "loss":
        _loss_check(op, regs, refs_after, D, bump, fail, guarded)
    else:
        raise ValueError(o)
    return pc


def _ref_losses(ra: RefMI, rb: RefMI, D: int, n_steps: int, eps: float = 1e-5):
    """float64 reference straight from the statement, by type."""
    B = next(iter(ra.blocks.values())).shape[0]
    npix = float(np.prod(ra.spatial()))
    per_entry = np.zeros(B)
    per_step = np.zeros((B, n_steps))
    normalized = np.zeros(B)
    for t in ra.blocks:
        x = ra.blocks[t].astype(np.float64)
        y = rb.blocks[t].astype(np.float64)
        d2 = (x - y) ** 2
        per_entry += d2.reshape(B, -1).sum(axis=1) / npix
        C = x.shape[1]
        if C % n_steps == 0:
            ds = d2.reshape((B, C // n_steps, n_steps, -1))
            per_step += ds.sum(axis=(1, 3)) / npix
        k = t[0]
        if k > 0:
            n2 = (y**2).reshape(y.shape[: 2 + D] + (-1,)).sum(axis=-1).reshape(y.shape[: 2 + D] + (1,) * k)
        else:
            n2 = y**2
        normalized += (d2 / (n2 + eps)).reshape(B, -1).sum(axis=1) / npix
    return per_entry, per_step, normalized


_LOSS_JIT: dict = {}


class _UnitModel(__import__("equinox").Module):
    """The smallest thing ml.evaluate accepts as a model (it is put in inference mode and handed to map_and_loss)."""
    w: jax.Array

    def __init__(self):
        self.w = jnp.zeros(())

    def __call__(self, x, aux_data=None):
        return x, aux_data


def _close(got, want, rel=1e-5) -> bool:
    got = np.asarray(got, dtype=np.float64)
    want = np.asarray(want, dtype=np.float64)
    if got.shape != want.shape:
        return False
    return bool(np.all(np.abs(got - want) <= rel * np.maximum(1.0, np.abs(want))))


def _loss_check(op, regs, refs, D, bump, fail, guarded):
    a, b = regs[op["a"]], regs[op["b"]]
    ra, rb = refs[op["a"]], refs[op["b"]]
    which, reduce, n_steps = op["which"], op["reduce"], op["n_steps"]
    eps = op.get("eps")
    per_entry, per_step, normalized = _ref_losses(ra, rb, D, n_steps, 1e-5 if eps is None else eps)
    differ = list(a.keys()) != list(b.keys())
    bump("loss_" + which)
    if differ:
        bump("orders_differ")

    def call_eager(x, y):
        if which == "smse":
            return ml.smse_loss(x, y, reduce=reduce)
        if which == "timestep":
            return ml.timestep_smse_loss(x, y, n_steps, reduce=reduce)
        return ml.normalized_smse_loss(x, y) if eps is None else ml.normalized_smse_loss(x, y, eps=eps)

    ctx = op.get("ctx", "eager")
    n_used = None  # entries that contribute (in_batches without a key drops the remainder)
    if ctx == "jit":
        bump("loss_ctx_jit")
        jkey = (which, reduce, n_steps, eps)
        if jkey not in _LOSS_JIT:
            _LOSS_JIT[jkey] = jax.jit(call_eager)
        call = _LOSS_JIT[jkey]
    elif ctx == "in_batches":
        bump("loss_ctx_in_batches")
        Lb = per_entry.shape[0]
        n_used = (Lb // op["B"]) * op["B"]

        def call(x, y):
            key = None if op["key"] is None else jax.random.PRNGKey(op["key"])
            return ml.map_loss_in_batches(lambda model, xb, yb, aux: (call_eager(xb, yb), aux), _UnitModel(), x, y, op["B"], key, devices=devices(op["ndev"]))
    else:
        call = call_eager

    got = np.asarray(guarded(lambda: call(a, b), "loss"))
    if n_used is not None:
        per_entry, per_step, normalized = per_entry[:n_used], per_step[:n_used], normalized[:n_used]
    if which == "smse":
        want = per_entry.mean() if reduce == "mean" else per_entry
    elif which == "timestep":
        if reduce == "mean":
            want = per_step.mean(axis=0)
        elif reduce == "max":
            tot = per_step.sum(axis=1)
            if np.sum(tot == tot.max()) > 1:
                want = None  # tie: the arg-max row is not determined by the statement
                bump("loss_max_tie")
            else:
                want = per_step[int(np.argmax(tot))]
        else:
            want = per_step
    else:
        want = normalized.mean()
    detail = {"which": which, "reduce": reduce, "n_steps": n_steps, "a_order": _order(a), "b_order": _order(b), "ctx": ctx}
    if want is not None and not _close(got, want):
        fail("definition", {**detail, "got": got.tolist(), "want": np.asarray(want).tolist()}, "C18")
    if np.any(got < 0):
        fail("nonnegative", {**detail, "got": got.tolist()}, "C18")
    if which == "timestep" and reduce is None:
        tot = np.asarray(ml.smse_loss(a, b, reduce=None))
        if not _close(got.sum(axis=1), tot):
            fail("steps_sum_to_total", {**detail, "sum": got.sum(axis=1).tolist(), "total": tot.tolist()}, "C18")
    # zero exactly on equal arguments (same content, possibly another storage order)
    if ra.same_layout(rb) and all(np.array_equal(ra.blocks[t], rb.blocks[t]) for t in ra.blocks):
        bump("loss_equal_args")
        if np.any(got != 0):
            fail("zero_on_equal", {**detail, "got": got.tolist()}, "C18")
    # invariance: the same group element applied to both (spatial extents must be preserved by the
    # multi-image action for the comparison to be meaningful; see C14 group_action for non-square)
    gg = group(D)[op["g"]]
    sp = tuple(ra.spatial())
    if tuple(int(v) for v in np.abs(gg @ np.array(sp))) == sp:
        ga = guarded(lambda: a.times_group_element(gg), "times_group_element")
        gb = guarded(lambda: b.times_group_element(gg), "times_group_element")
        got_g = np.asarray(guarded(lambda: call(ga, gb), "loss"))
        bump("loss_invariance")
        tie = which == "timestep" and reduce == "max" and want is None
        if not tie and not _close(got_g, got):
            fail("group_invariance", {**detail, "g": gg.tolist(), "before": got.tolist(), "after": got_g.tolist()}, "C18")


def _loss_near(op, D, bump, fail, guarded):
    """prediction close to the target on data with a large offset (non-integer values): the squared error must be
    computed from the difference, not from an expansion that cancels in float32"""
    rs = np.random.RandomState(op["vseed"])
    types = [(0, 0), (1, 0)] if D >= 2 else [(0, 0)]
    B, C, sp, n_steps = 2, 2, (4,) * D, op["n_steps"]
    tgt = {t: (op["offset"] + rs.normal(size=(B, C) + sp + (D,) * t[0])).astype(np.float32) for t in types}
    prd = {t: (tgt[t] + op["err"] * rs.normal(size=tgt[t].shape)).astype(np.float32) for t in types}
    y = geom.MultiImage({t: jnp.asarray(v) for t, v in tgt.items()}, D, True)
    order = list(reversed(types)) if op["swap"] else types
    x = geom.MultiImage({t: jnp.asarray(prd[t]) for t in order}, D, True)
    ra, rb = RefMI(prd, D, (True,) * D), RefMI(tgt, D, (True,) * D)
    per_entry, per_step, normalized = _ref_losses(ra, rb, D, n_steps)
    bump("obs_loss_near")
    checks = [
        ("smse", np.asarray(guarded(lambda: ml.smse_loss(x, y, reduce=None), "loss")), per_entry),
        ("timestep", np.asarray(guarded(lambda: ml.timestep_smse_loss(x, y, n_steps, reduce=None), "loss")), per_step),
        ("normalized", np.asarray(guarded(lambda: ml.normalized_smse_loss(x, y), "loss")), normalized.mean()),
    ]
    for name, got, want in checks:
        if not _close(got, want, rel=2e-3) or np.any(got < 0):
            fail("definition_near_target", {"which": name, "offset": op["offset"], "err": op["err"], "got": np.asarray(got).tolist(), "want": np.asarray(want).tolist()}, "C18")


def _x64(op, D, bump, fail, guarded):
    """The process runs with 64-bit types enabled (jax.enable_x64, a documented JAX mode) and the data are float64:
    nothing in the statements restricts the element type, so arithmetic, round trips and losses must keep the
    values they were given - a silent cast to float32 loses every difference below 1e-7 relative."""
    rs = np.random.RandomState(op["vseed"])
    types = [(0, 0), (1, 0), (2, 1)] if D >= 2 else [(0, 0), (0, 1)]
    B, C, sp, n_steps = 2, 2, (2,) * D, op["n_steps"]
    err = 2.0 ** (3.32 * op["err_exp"])  # about 10**err_exp
    tgt = {t: op["offset"] + rs.normal(size=(B, C) + sp + (D,) * t[0]) for t in types}
    prd = {t: tgt[t] + err * rs.normal(size=tgt[t].shape) for t in types}
    bump("obs_x64")
    with jax.enable_x64(True):
        y = geom.MultiImage({t: jnp.asarray(v, dtype=jnp.float64) for t, v in tgt.items()}, D, True)
        order = list(reversed(types)) if op["swap"] else types
        x = geom.MultiImage({t: jnp.asarray(prd[t], dtype=jnp.float64) for t in order}, D, True)
        if op["transport"] == "tree":
            leaves, treedef = jax.tree_util.tree_flatten(x)
            x = jax.tree_util.tree_unflatten(treedef, leaves)
        elif op["transport"] == "jit":
            x = jax.jit(lambda m: m)(x)
        for t in types:
            got = np.asarray(guarded(lambda: x[t], "getitem"))
            if got.dtype != np.float64 or not np.array_equal(got, prd[t]):
                fail("float64_transport", {"type": list(t), "transport": op["transport"], "dtype": str(got.dtype)}, "C13")
        # arithmetic by type, exact in float64
        for name, res, want in [
            ("sub", guarded(lambda: x - y, "sub"), {t: prd[t] - tgt[t] for t in types}),
            ("add", guarded(lambda: x + y, "add"), {t: prd[t] + tgt[t] for t in types}),
            ("mul", guarded(lambda: x * 0.5, "mul"), {t: prd[t] * 0.5 for t in types}),
            ("div", guarded(lambda: x / 4.0, "div"), {t: prd[t] / 4.0 for t in types}),
        ]:
            for t in types:
                got = np.asarray(res[t])
                if got.dtype != np.float64 or not np.array_equal(got, want[t]):
                    fail("float64_arithmetic", {"op": name, "type": list(t), "dtype": str(got.dtype), "max_abs_dev": float(np.max(np.abs(got.astype(np.float64) - want[t])))}, "C12")
        # lossless re-layouts
        for name, back in [
            ("vector", guarded(lambda: x.from_vector(x.to_vector(), x), "vector_rt")),
            ("scalar", guarded(lambda: x.to_scalar_multi_image().from_scalar_multi_image(x.get_signature()), "scalar_rt")),
            ("copy", guarded(lambda: x.copy(), "copy")),
            ("expand_combine", guarded(lambda: x.expand(0, 1).combine_axes((0, 1)), "expand")),
        ]:
            for t in types:
                got = np.asarray(back[t])
                if got.dtype != np.float64 or not np.array_equal(got, prd[t]):
                    fail("float64_roundtrip", {"pair": name, "type": list(t), "dtype": str(got.dtype)}, "C13")
        # losses from the definition, in float64
        ra, rb = RefMI.__new__(RefMI), RefMI.__new__(RefMI)
        for r, blocks in ((ra, prd), (rb, tgt)):
            r.blocks, r.D, r.is_torus = dict(blocks), D, (True,) * D
        per_entry, per_step, normalized = _ref_losses(ra, rb, D, n_steps)
        checks = [
            ("smse", np.asarray(guarded(lambda: ml.smse_loss(x, y, reduce=None), "loss")), per_entry),
            ("timestep", np.asarray(guarded(lambda: ml.timestep_smse_loss(x, y, n_steps, reduce=None), "loss")), per_step),
            ("normalized", np.asarray(guarded(lambda: ml.normalized_smse_loss(x, y), "loss")), normalized.mean()),
        ]
    for name, got, want in checks:
        got = np.asarray(got, dtype=np.float64)
        want = np.asarray(want, dtype=np.float64)
        if got.shape != want.shape or not np.all(np.abs(got - want) <= 1e-9 * np.abs(want) + 1e-300) or np.any(got < 0):
            fail("definition_float64", {"which": name, "offset": op["offset"], "err": err, "got": got.tolist(), "want": want.tolist()}, "C18")


# --------------------------------------------------------------------------- shrinking
def shrink(plan: dict, fails) -> dict:
    ops = list(plan["ops"])

    def with_ops(sub):
        q = dict(plan)
        q["ops"] = sub
        return q

    keep = ddmin(ops, lambda sub: len(sub) > 0 and fails(with_ops(sub)), max_tests=250)
    p = with_ops(keep)
    # simplify transports
    for i, op in enumerate(list(p["ops"])):
        if op["op"] == "transport" and op["kind"] not in ("copy",):
            for simpler in (["tree"] if op["kind"] in ("jit", "vmap") else []):
                q_ops = list(p["ops"])
                q_ops[i] = {**op, "kind": simpler}
                if fails(with_ops(q_ops)):
                    p = with_ops(q_ops)
                    break
    return p
