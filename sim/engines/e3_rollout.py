"""E3: rollout machine (C16). The real ml.autoregressive_map / autoregressive_step against a
reference sliding window kept as plain Python lists of frames.

The model family is history sensitive and exact: per dynamic channel a weighted sum of its window
with pairwise distinct integer weights, plus weighted constants of the same type, plus a cross-type
term that depends on the *layout position* of every entry of another type's block, reduced mod 257
(float32 stays exact). A permuted, mis-shifted or re-ordered window changes the next prediction.

Transports (F-reorder): the model is called eagerly, through eqx.filter_jit (its output comes back
in sorted key order), or emits its blocks in reverse order; the input crosses jit / pytree /
re-insertion before the first step; the whole rollout optionally runs under jax.vmap (as
scripts/cfd_2d.py does) or eqx.filter_jit; an aux_data counter is threaded through.
"""
from __future__ import annotations

from typing import Any, Optional

import numpy as np
import jax
import jax.numpy as jnp
import equinox as eqx

import ginjax.geometric as geom
import ginjax.ml as ml
import ginjax.models as models

from ..core import EventLog, Violation, shape_hash
from .common import arr_bytes

PROP = "C16"
MOD = 257.0
TYPES = [(0, 0), (0, 1), (1, 0), (1, 1), (2, 0)]


# --------------------------------------------------------------------------- the model family
class WindowModel(models.MultiImageModule):
    W: dict
    U: dict
    Bv: dict
    spec: tuple = eqx.field(static=True)  # ((k,p,c_dyn,c_const), ...) in the input's insertion order
    past: int = eqx.field(static=True)
    out_order: tuple = eqx.field(static=True)
    cross: tuple = eqx.field(static=True)  # ((t, t2), ...)
    use_aux: bool = eqx.field(static=True)
    half: bool = eqx.field(static=True)

    def __init__(self, spec, past, out_order, cross, use_aux, wseed, half=False):
        self.spec, self.past, self.out_order, self.cross, self.use_aux = spec, past, out_order, cross, use_aux
        self.half = half
        W, U, Bv = model_weights(spec, past, wseed)
        self.W = {t: jnp.asarray(v) for t, v in W.items()}
        self.U = {t: jnp.asarray(v) for t, v in U.items()}
        self.Bv = {t: jnp.asarray(v) for t, v in Bv.items()}

    def __call__(self, x, aux_data=None):
        info = {(k, p): (cd, cc) for k, p, cd, cc in self.spec}
        cross = dict(self.cross)
        out = x.empty()
        for t in self.out_order:
            cd, cc = info[t]
            blk = x[t].astype(jnp.float32)
            rest = blk.shape[1:]
            dyn = blk[: cd * self.past].reshape((cd, self.past) + rest)
            val = jnp.einsum("js,js...->j...", self.W[t], dyn)
            if cc:
                val = val + jnp.einsum("jq,q...->j...", self.U[t], blk[cd * self.past :])
            val = val + self.Bv[t].reshape((cd,) + (1,) * len(rest))
            if t in cross:
                other = x[cross[t]].astype(jnp.float32)
                pw = (jnp.arange(other.size, dtype=jnp.float32) % 7.0 + 1.0).reshape(other.shape)
                val = val + jnp.mod(jnp.sum(other * pw), MOD)
            out.append(t[0], t[1], jnp.mod(val, MOD) + (0.5 if self.half else 0.0))
        if self.use_aux:
            aux_data = aux_data + 1
        return out, aux_data


def model_weights(spec, past, wseed):
    rs = np.random.RandomState(wseed % (2**31 - 1))
    W, U, Bv = {}, {}, {}
    for k, p, cd, cc in spec:
        if cd == 0:
            continue
        t = (k, p)
        W[t] = np.stack([rs.permutation(np.arange(1, 16))[:past] for _ in range(cd)]).astype(np.float32)
        U[t] = rs.randint(1, 8, size=(cd, max(cc, 1))).astype(np.float32)[:, :cc] if cc else np.zeros((cd, 0), np.float32)
        Bv[t] = rs.randint(0, 50, size=(cd,)).astype(np.float32)
    return W, U, Bv


# --------------------------------------------------------------------------- reference window
class RefWindow:
    """dict type -> (list over channels of list of `past` frames, list of constant frames)."""

    def __init__(self, spec, past, x0: dict):
        self.spec, self.past = spec, past
        self.win: dict = {}
        self.const: dict = {}
        for k, p, cd, cc in spec:
            blk = x0[(k, p)]
            self.win[(k, p)] = [[blk[j * past + s] for s in range(past)] for j in range(cd)]
            self.const[(k, p)] = [blk[cd * past + q] for q in range(cc)]

    def block(self, t) -> np.ndarray:
        frames = [f for ch in self.win[t] for f in ch] + list(self.const[t])
        return np.stack(frames).astype(np.float32)

    half = False

    def predict(self, W, U, Bv, cross) -> dict:
        pred = {}
        cross = dict(cross)
        for k, p, cd, cc in self.spec:
            t = (k, p)
            if cd == 0:
                continue
            out = []
            c_term = 0.0
            if t in cross:
                other = self.block(cross[t]).astype(np.float64)
                pw = (np.arange(other.size) % 7 + 1).reshape(other.shape)
                c_term = float(np.sum(other * pw) % 257)  # multiples of 0.5 stay exact in float32 and float64
            for j in range(cd):
                v = sum(float(W[t][j, s]) * self.win[t][j][s].astype(np.float64) for s in range(self.past))
                for q in range(cc):
                    v = v + float(U[t][j, q]) * self.const[t][q].astype(np.float64)
                v = v + float(Bv[t][j]) + c_term
                out.append(((v % 257) + (0.5 if self.half else 0.0)).astype(np.float32))
            pred[t] = out
        return pred

    def advance(self, pred: dict) -> None:
        for t, chans in pred.items():
            for j, f in enumerate(chans):
                self.win[t][j] = self.win[t][j][1:] + [f]


# --------------------------------------------------------------------------- plans
def gen_plan(rng, profile: dict, seed: int) -> dict:
    D = rng.choice([2, 2, 2, 3])
    spatial = rng.choice({2: [(2, 2), (1, 3), (3, 2), (3, 3)], 3: [(2, 1, 2), (2, 2, 2)]}[D])
    pool = [t for t in TYPES if not (D == 3 and t[0] == 2)]
    n_types = rng.randint(1, 3)
    types = rng.sample(pool, n_types)
    spec = []
    for i, (k, p) in enumerate(types):
        r = rng.random()
        if r < 0.5:
            cd, cc = rng.randint(1, 3), 0
        elif r < 0.85:
            cd, cc = rng.randint(1, 3), rng.randint(1, 2)
        else:
            cd, cc = 0, rng.randint(1, 2)  # constant-only type
        spec.append([k, p, cd, cc])
    if all(s[2] == 0 for s in spec):
        spec[0][2] = rng.randint(1, 2)
    past = rng.randint(1, 4)
    dyn_types = [(k, p) for k, p, cd, _ in spec if cd]
    cross = []
    for t in dyn_types:
        others = [(k, p) for k, p, _, _ in spec if (k, p) != t]
        if others and rng.random() < 0.7:
            cross.append([list(t), list(rng.choice(others))])
    model_mode = rng.choice(["eager", "eager", "jit", "jit", "reversed", "shuffled"])
    out_order = list(dyn_types)
    if model_mode == "reversed":
        out_order = out_order[::-1]
    elif model_mode == "shuffled":
        rng.shuffle(out_order)
    outer = rng.choice(["none", "none", "none", "vmap", "vmap", "filter_jit"])
    return {
        "D": D,
        "spatial": list(spatial),
        "spec": spec,
        "past": past,
        "n": rng.choice(list(range(1, 9)) * 3 + [10, 11, 12, 16]),  # a minority of long rollouts (a different code path may take over beyond some length)
        "cross": cross,
        "model_mode": model_mode,
        "out_order": [list(t) for t in out_order],
        "outer": outer,
        "batch": rng.randint(1, 3) if outer == "vmap" else 0,
        "use_aux": rng.random() < 0.3,
        "in_transport": rng.choice(["none", "none", "jit", "tree", "reinsert"]),
        "in_perm_seed": rng.getrandbits(16),
        "wseed": rng.getrandbits(24),
        "xseed": rng.getrandbits(24),
        "is_torus": rng.random() < 0.5,
        "also_step": rng.random() < 0.5,
        # the history may be stored in a narrower dtype than the model predicts in (the window must then be promoted,
        # never the prediction rounded): with such an input every prediction carries a +0.5 so that a cast would show
        "in_dtype": rng.choice(["float32"] * 8 + ["int32", "float16"]),
        "consts_reversed": rng.random() < 0.4,
    }


def plan_size(plan: dict) -> int:
    return plan["n"] + len(plan["spec"]) + plan["past"]


def setup(job: dict, widx: int) -> dict:
    return {}


def _x0(plan, b: int) -> dict:
    D, past = plan["D"], plan["past"]
    out = {}
    for k, p, cd, cc in plan["spec"]:
        rs = np.random.RandomState((plan["xseed"] * 31 + k * 7 + p * 3 + b * 101) % (2**31 - 1))
        shape = (cd * past + cc,) + tuple(plan["spatial"]) + (D,) * k
        out[(k, p)] = rs.randint(0, 17, size=shape).astype(np.float32)
    return out


def _to_mi(blocks: dict, order, D, is_torus, dtype="float32"):
    return geom.MultiImage({t: jnp.asarray(blocks[t]).astype(dtype) for t in order}, D, is_torus)


_JIT_ID = jax.jit(lambda m: m)


def execute(plan: dict, ctx: dict) -> dict:
    log = EventLog(plan.get("seed", 0))
    log.add("plan", {k: v for k, v in plan.items() if k != "profile"})
    violations: list[dict] = []
    counters: dict[str, int] = {}
    evals = 0

    def bump(k, n=1):
        counters[k] = counters.get(k, 0) + n

    def viol(clause, detail, site):
        violations.append(Violation(PROP, clause, detail, site).to_json())

    D, past, n = plan["D"], plan["past"], plan["n"]
    spec = tuple((k, p, cd, cc) for k, p, cd, cc in plan["spec"])
    order = [(k, p) for k, p, _, _ in spec]
    cross = tuple((tuple(a), tuple(b)) for a, b in plan["cross"])
    out_order = tuple(tuple(t) for t in plan["out_order"])
    consts = {(k, p): cc for k, p, cd, cc in spec if cc}
    if plan.get("consts_reversed"):
        consts = dict(reversed(list(consts.items())))  # the dict describing the constants need not follow the input's order
    site = f"{plan['model_mode']}/{plan['outer']}/in:{plan['in_transport']}"
    W, U, Bv = model_weights(spec, past, plan["wseed"])
    in_dtype = plan.get("in_dtype", "float32")
    half = in_dtype != "float32"
    model = WindowModel(spec, past, out_order, cross, plan["use_aux"], plan["wseed"], half)
    called: Any = model
    if plan["model_mode"] == "jit":
        called = eqx.filter_jit(model)
    nb = max(1, plan["batch"])
    x0s = [_x0(plan, b) for b in range(nb)]

    # ------------------------------------------------ reference rollouts
    ref_outs, ref_inputs = [], []
    for b in range(nb):
        win = RefWindow(spec, past, x0s[b])
        win.half = half
        preds, inputs = [], []
        for step in range(n):
            inputs.append({t: win.block(t) for t in order})
            pr = win.predict(W, U, Bv, cross)
            preds.append(pr)
            win.advance(pr)
        inputs.append({t: win.block(t) for t in order})
        ref_inputs.append(inputs)
        # expected output: per type and channel, the n predictions in time order
        ref_outs.append({t: np.stack([preds[s][t][j] for j in range(len(preds[0][t])) for s in range(n)]) for t in preds[0]})

    # ------------------------------------------------ real rollout
    def build_x(b):
        x = _to_mi(x0s[b], order, D, plan["is_torus"], in_dtype)
        tr = plan["in_transport"]
        if tr == "jit":
            x = _JIT_ID(x)
        elif tr == "tree":
            leaves, td = jax.tree_util.tree_flatten(x)
            x = jax.tree_util.tree_unflatten(td, leaves)
        elif tr == "reinsert":
            perm = list(range(len(order)))
            np.random.RandomState(plan["in_perm_seed"]).shuffle(perm)
            x = _to_mi(x0s[b], [order[i] for i in perm], D, plan["is_torus"], in_dtype)
        if tr != "none":
            bump("in_transport_" + tr)
        return x

    recorded: list = []

    def recording_model(x, aux):
        if plan["outer"] == "none" and plan["model_mode"] != "jit":
            recorded.append({t: np.asarray(v) for t, v in x.items()})
        elif plan["outer"] == "none":
            recorded.append({t: np.asarray(v) for t, v in x.items()})
        return called(x, aux)

    aux0 = jnp.zeros(()) if plan["use_aux"] else None
    x_in = None
    try:
        if plan["outer"] == "none":
            x_in = build_x(0)
            keys_before = [tuple(t) for t in x_in.keys()]
            vals_before = {t: np.asarray(v) for t, v in x_in.items()}
            consts_arg = dict(consts)
            if consts_arg:
                out, aux = ml.autoregressive_map(recording_model, x_in, aux0, past, n, consts_arg)
            else:  # no constant fields: rely on the default argument (which must not accumulate state between calls)
                out, aux = ml.autoregressive_map(recording_model, x_in, aux0, past, n)
                bump("default_constant_fields")
            outs = [out]
            # the caller's objects are inputs, not scratch space
            if [tuple(t) for t in x_in.keys()] != keys_before or any(not np.array_equal(np.asarray(x_in[t]), vals_before[t]) for t in vals_before) or consts_arg != consts:
                viol("caller_input_mutated", {"keys_before": [list(t) for t in keys_before], "keys_after": [list(t) for t in x_in.keys()], "constant_fields_after": {str(k): v for k, v in consts_arg.items()}}, site)
        elif plan["outer"] == "filter_jit":
            f = eqx.filter_jit(lambda m, x, a: ml.autoregressive_map(m, x, a, past, n, consts))
            out, aux = f(called if plan["model_mode"] != "jit" else model, build_x(0), aux0)
            outs = [out]
        else:
            xs = [build_x(b) for b in range(nb)]
            xb = geom.MultiImage({t: jnp.stack([x[t] for x in xs]) for t in xs[0].keys()}, D, plan["is_torus"])
            vm = jax.vmap(ml.autoregressive_map, in_axes=(None, 0, None, None, None, None), out_axes=(0, None))
            outb, aux = vm(called, xb, aux0, past, n, consts)
            outs = [outb.get_one(b, keepdims=False) for b in range(nb)]
    except Exception as e:
        viol("raises", f"{type(e).__name__}: {str(e)[:400]}", site)
        outs, aux = [], None
    bump("model_" + plan["model_mode"])
    bump("in_dtype_" + in_dtype)
    bump("outer_" + plan["outer"])

    for b, out in enumerate(outs):
        want = ref_outs[b]
        evals += 1
        if set(out.keys()) != set(want.keys()):
            viol("output_types", {"got": sorted(out.keys()), "want": sorted(want.keys())}, site)
            continue
        for t in want:
            got = np.asarray(out[t])
            log.add("out", arr_bytes(got))
            if got.shape != want[t].shape or not np.array_equal(got, want[t]):
                first = None
                if got.shape == want[t].shape:
                    cd = len(want[t]) // n
                    for idx in range(len(want[t])):
                        if not np.array_equal(got[idx], want[t][idx]):
                            first = {"channel": idx // n, "step": idx % n}
                            break
                viol("rollout", {"type": list(t), "got_shape": list(got.shape), "want_shape": list(want[t].shape), "first_bad": first, "n": n, "past": past, "spec": plan["spec"]}, site)
                break
        if out.D != D or tuple(out.is_torus) != (plan["is_torus"],) * D:
            viol("flags", {"D": out.D, "is_torus": list(out.is_torus)}, site)
    if outs and plan["use_aux"]:
        evals += 1
        if aux is None or float(aux) != float(n):
            viol("aux_state", {"got": None if aux is None else float(aux), "want": n}, site)
    # inputs seen by the model, step by step (eager outer only): by type and channel position
    if recorded:
        bump("inputs_recorded", len(recorded))
        for step, rec in enumerate(recorded):
            evals += 1
            want_in = ref_inputs[0][step]
            bad = None
            if set(rec.keys()) != set(want_in.keys()):
                bad = {"types": sorted(rec.keys())}
            else:
                for t in want_in:
                    if rec[t].shape != want_in[t].shape or not np.array_equal(rec[t], want_in[t]):
                        bad = {"type": list(t)}
                        break
            if bad is not None:
                viol("window_input", {"step": step, **bad, "past": past, "spec": plan["spec"]}, site)
                break
    # autoregressive_step directly on the first window
    if plan.get("also_step"):
        evals += 1
        x = build_x(0)
        pr0 = RefWindow(spec, past, x0s[0])
        pr0.half = half
        pred = pr0.predict(W, U, Bv, cross)
        out_mi = geom.MultiImage({t: jnp.asarray(np.stack(pred[t])) for t in out_order}, D, plan["is_torus"])
        try:
            nxt = ml.autoregressive_step(x, out_mi, past, consts)
            pr0.advance(pred)
            for t in order:
                if t not in nxt or not np.array_equal(np.asarray(nxt[t]), pr0.block(t)):
                    viol("step", {"type": list(t), "past": past, "spec": plan["spec"]}, site + "/step")
                    break
            if set(nxt.keys()) != set(order):
                viol("step", {"types": sorted(nxt.keys())}, site + "/step")
            if [tuple(t) for t in nxt.keys()] != [tuple(t) for t in x.keys()]:
                viol("step_type_order", {"got": [list(t) for t in nxt.keys()], "input": [list(t) for t in x.keys()]}, site + "/step")
        except Exception as e:
            viol("raises", f"autoregressive_step: {type(e).__name__}: {str(e)[:300]}", site + "/step")
    kinds = [plan["model_mode"], plan["outer"], plan["in_transport"], in_dtype, f"past{past}", f"n{n}", "aux" if plan["use_aux"] else "noaux"] + [
        f"{k}{p}:{min(cd, 1)}{min(cc, 1)}" for k, p, cd, cc in spec
    ]
    nontrivial = plan["model_mode"] != "eager" or plan["outer"] != "none" or plan["in_transport"] != "none" or plan["use_aux"]
    return {
        "digest": log.digest(),
        "evaluations": evals,
        "counters": counters,
        "faults": {k: v for k, v in counters.items() if k.startswith(("in_transport_", "model_", "outer_"))},
        "shape": shape_hash(kinds),
        "kinds": kinds,
        "nontrivial": nontrivial,
        "violations": violations,
        "trace_head": log.head,
    }


def shrink(plan: dict, fails) -> dict:
    p = dict(plan)

    def attempt(q):
        try:
            return fails(q)
        except Exception:
            return False

    for key, vals in (("n", [1, 2, 3]), ("outer", ["none"]), ("in_transport", ["none"]), ("use_aux", [False]), ("also_step", [False]), ("past", [1, 2])):
        for v in vals:
            if p[key] != v:
                q = dict(p)
                q[key] = v
                if key == "outer":
                    q["batch"] = 0
                if attempt(q):
                    p = q
                    break
    # drop types
    changed = True
    while changed and len(p["spec"]) > 1:
        changed = False
        for i in range(len(p["spec"])):
            q = dict(p)
            drop = tuple(p["spec"][i][:2])
            q["spec"] = [s for j, s in enumerate(p["spec"]) if j != i]
            if all(s[2] == 0 for s in q["spec"]):
                continue
            q["cross"] = [c for c in p["cross"] if tuple(c[0]) != drop and tuple(c[1]) != drop]
            q["out_order"] = [t for t in p["out_order"] if tuple(t) != drop]
            if attempt(q):
                p = q
                changed = True
                break
    if p["cross"]:
        q = dict(p)
        q["cross"] = []
        if attempt(q):
            p = q
    return p
