"""Parent process of a check. Never imports jax. Starts workers, aggregates, writes evidence.

usage: main.py <PROPERTY_ID> [--tier quick|thorough] [--seed N] [--workers N] [--replay FILE]
                             [--digests FILE] [--only LABEL] [--scale F]
exit 0: property held on everything explored (known findings are listed, not alarms)
exit 1: a violation not listed in known_findings.json (prints VIOLATION property=<id> replay=<path>)
exit 2: harness failure (neither success nor VIOLATION is claimed)
"""
from __future__ import annotations

import argparse
import json
import os
import re
import shutil
import subprocess
import sys
import tempfile
import time

HERE = os.path.dirname(os.path.abspath(__file__))
VERIF = os.path.dirname(HERE)
sys.path.insert(0, VERIF)

from sim import checks as checks_mod  # noqa: E402
from sim.core import jdump, match_known  # noqa: E402

PY = os.environ.get("VERIF_PYTHON", "/venv/bin/python")
DEFAULT_SEEDS = {"quick": 20260928, "thorough": 20260929}


def worker_env(repo: str) -> dict:
    env = dict(os.environ)
    env["PYTHONPATH"] = os.path.join(repo, "src") + os.pathsep + VERIF
    env["XLA_FLAGS"] = (
        "--xla_force_host_platform_device_count=4 "
        "--xla_cpu_multi_thread_eigen=false intra_op_parallelism_threads=1"
    )
    env["JAX_PLATFORMS"] = "cpu"
    env["PYTHONHASHSEED"] = env.get("VERIF_HASHSEED", "0")
    env["OMP_NUM_THREADS"] = "1"
    env["OPENBLAS_NUM_THREADS"] = "1"
    env["MKL_NUM_THREADS"] = "1"
    env["WANDB_MODE"] = "disabled"
    env["WANDB_SILENT"] = "true"
    env["MPLBACKEND"] = "Agg"
    env["JAX_ENABLE_X64"] = "0"
    env["GINJAX_VERIF"] = "1"
    env["VERIF_REPO"] = repo
    env.pop("JAX_COMPILATION_CACHE_DIR", None)
    return env


def load_known() -> list[dict]:
    path = os.path.join(VERIF, "known_findings.json")
    if not os.path.exists(path):
        return []
    with open(path) as f:
        data = json.load(f)
    return data.get("findings", [])


def run_workers(job: dict, nworkers: int, env: dict, timeout_s: float) -> tuple[list[dict], list[str]]:
    work = tempfile.mkdtemp(prefix="verif-work-", dir=os.environ.get("VERIF_WORKDIR", None))
    # XLA compile results are shared between the workers of this invocation (timing only, never results)
    env = dict(env)
    env["VERIF_JAX_CACHE"] = os.environ.get("VERIF_JAX_CACHE") or os.path.join(work, "jaxcache")
    errors: list[str] = []
    results: list[dict] = []
    try:
        job_path = os.path.join(work, "job.json")
        with open(job_path, "w") as f:
            f.write(jdump(job))
        procs = []
        for w in range(nworkers):
            out = os.path.join(work, f"out{w}.json")
            logf = open(os.path.join(work, f"log{w}.txt"), "w")
            p = subprocess.Popen(
                [PY, os.path.join(HERE, "worker.py"), job_path, str(w), out],
                env=env,
                stdout=logf,
                stderr=subprocess.STDOUT,
                cwd=VERIF,
            )
            procs.append((p, out, logf, w))
        deadline = time.time() + timeout_s
        for p, out, logf, w in procs:
            remaining = max(1.0, deadline - time.time())
            try:
                p.wait(timeout=remaining)
            except subprocess.TimeoutExpired:
                p.kill()
                p.wait()
                errors.append(f"worker {w}: killed after wall timeout {timeout_s}s")
            logf.close()
            if os.path.exists(out):
                with open(out) as f:
                    results.append(json.load(f))
            else:
                tail = ""
                try:
                    with open(os.path.join(work, f"log{w}.txt")) as f:
                        tail = f.read()[-3000:]
                except OSError:
                    pass
                errors.append(f"worker {w}: no result (exit {p.returncode})\n{tail}")
            for r in results[-1:]:
                for he in r.get("harness_errors", []):
                    errors.append(f"worker {w}: {he['type']}: {he['msg']}\n{he.get('tb', '')}")
    finally:
        if os.environ.get("VERIF_KEEP_WORK"):
            print(f"[main] work dir kept: {work}")
        else:
            shutil.rmtree(work, ignore_errors=True)
    return results, errors


def aggregate(results: list[dict]) -> dict:
    by_label: dict[str, dict] = {}
    for r in results:
        for b in r.get("batches", []):
            a = by_label.setdefault(
                b["label"],
                {
                    "engine": b["engine"],
                    "runs": 0,
                    "evaluations": 0,
                    "counters": {},
                    "faults": {},
                    "shapes_nontrivial": set(),
                    "shapes_all": set(),
                    "sim_time_s": 0.0,
                    "samples": [],
                    "discarded": 0,
                    "truncated": False,
                    "wall_s_max": 0.0,
                    "digests": {},
                },
            )
            a["runs"] += b["runs"]
            a["evaluations"] += b["evaluations"]
            for k, v in b["counters"].items():
                a["counters"][k] = a["counters"].get(k, 0) + v
            for k, v in b["faults"].items():
                a["faults"][k] = a["faults"].get(k, 0) + v
            a["shapes_nontrivial"].update(b["shapes_nontrivial"])
            a["shapes_all"].update(b["shapes_all"])
            a["sim_time_s"] += b["sim_time_s"]
            if len(a["samples"]) < 2:
                a["samples"].extend(b["samples"][: 2 - len(a["samples"])])
            a["discarded"] += b["discarded"]
            a["truncated"] = a["truncated"] or b["truncated"]
            a["wall_s_max"] = max(a["wall_s_max"], b["wall_s"])
            a["digests"].update(b.get("digests", {}))
    return by_label


def cmd_replay(args: argparse.Namespace, repo: str) -> int:
    env = worker_env(repo)
    p = subprocess.run(
        [PY, os.path.join(HERE, "replay.py"), args.replay], env=env, cwd=VERIF, timeout=3600
    )
    return p.returncode


def main() -> int:
    ap = argparse.ArgumentParser()
    ap.add_argument("prop")
    ap.add_argument("--tier", default=os.environ.get("VERIF_TIER", "quick"), choices=["quick", "thorough"])
    ap.add_argument("--seed", type=int, default=None)
    ap.add_argument("--workers", type=int, default=int(os.environ.get("VERIF_WORKERS", "16")))
    ap.add_argument("--replay", default=None)
    ap.add_argument("--digests", default=None, help="write per-run digests to this file (self-test)")
    ap.add_argument("--only", default=None, help="run only batches whose label matches this regex")
    ap.add_argument("--scale", type=float, default=float(os.environ.get("VERIF_SCALE", "1.0")))
    ap.add_argument("--no-evidence", action="store_true")
    ap.add_argument("--no-shrink", action="store_true")
    args = ap.parse_args()

    repo = os.environ.get("VERIF_REPO", "/repo")
    if args.replay:
        return cmd_replay(args, repo)

    prop = args.prop
    if prop not in checks_mod.CHECKS:
        print(f"unknown property {prop}; claimed: {sorted(checks_mod.CHECKS)}")
        return 2
    seed = args.seed
    if seed is None:
        envs = os.environ.get("VERIF_SEED")
        seed = int(envs) if envs not in (None, "") else DEFAULT_SEEDS[args.tier]
    spec = checks_mod.CHECKS[prop]
    batches = [dict(b) for b in spec["batches"](args.tier)]
    if args.only:
        batches = [b for b in batches if re.search(args.only, b["label"])]
    for b in batches:
        if b.get("exact") and args.scale >= 1.0:
            continue  # enumerations are never scaled up
        b["n_runs"] = max(1, int(b["n_runs"] * args.scale))
        b["budget_s"] = b.get("budget_s", 600) * max(1.0, args.scale)
    nworkers = max(1, args.workers)
    replay_dir = os.path.join(VERIF, "replays")
    job = {
        "property": prop,
        "tier": args.tier,
        "seed": seed,
        "workers": nworkers,
        "batches": batches,
        "replay_dir": replay_dir,
        "record_digests": bool(args.digests),
        # a worker that is still alive this long after the wall budgets of all its batches is dumped and killed
        "hard_timeout_s": 1.5 * sum(b.get("budget_s", 600) for b in batches) + 1500,
        "no_shrink": args.no_shrink,
        "repo": repo,
        "known": load_known(),
    }
    t0 = time.time()
    print(f"[{prop}] tier={args.tier} VERIF_SEED={seed} workers={nworkers} repo={repo}", flush=True)
    results, errors = run_workers(job, nworkers, worker_env(repo), job["hard_timeout_s"] + 60)
    wall = time.time() - t0
    agg = aggregate(results)

    # ------------------------------------------------------------------ violations
    known = load_known()
    viols = [v for r in results for v in r.get("violations", []) if v["property"] == prop]
    others: dict = {}
    for r in results:
        for v in r.get("other", []):
            others[(v["property"], v["clause"], v["site"])] = others.get((v["property"], v["clause"], v["site"]), 0) + 1
    for (op_, cl, st), n in sorted(others.items()):
        print(f"[{prop}] note: {n} run(s) also met a violation of {op_} ({cl}, site={st}); decided by ./check {op_}, not counted here")
    new_viols, known_hits = [], {}
    for v in viols:
        k = match_known(v, known)
        if k is not None:
            known_hits.setdefault(k["id"], (k, []))[1].append(v)
        else:
            new_viols.append(v)

    total_runs = sum(a["runs"] for a in agg.values())
    total_evals = sum(a["evaluations"] for a in agg.values())
    distinct = sum(len(a["shapes_nontrivial"]) for a in agg.values())
    for label, a in sorted(agg.items()):
        print(
            f"[{prop}] batch {label}: runs={a['runs']} evals={a['evaluations']} "
            f"distinct_nontrivial={len(a['shapes_nontrivial'])} faults={json.dumps(a['faults'], sort_keys=True)} "
            f"discarded={a['discarded']} truncated={a['truncated']} wall_max={a['wall_s_max']:.1f}s",
            flush=True,
        )
        if a["counters"]:
            print(f"[{prop}]   probes: {json.dumps(a['counters'], sort_keys=True)}")

    if args.digests:
        with open(args.digests, "w") as f:
            json.dump({lab: a["digests"] for lab, a in agg.items()}, f, sort_keys=True, indent=0)

    if errors:
        print(f"[{prop}] HARNESS ERROR ({len(errors)}):")
        for e in errors[:5]:
            print(e[:4000])
        print(f"[{prop}] result: harness failure, nothing is claimed")
        return 2

    if not args.no_evidence:
        write_evidence(prop, args.tier, seed, spec, agg, wall, total_runs, total_evals, distinct, viols, new_viols, known_hits)

    for kid, (k, vs) in sorted(known_hits.items()):
        print(f"KNOWN-FINDING: property={k['property']} {k['what']} (id={kid}, {len(vs)} occurrence(s), e.g. replay={vs[0]['replay']})")
    for v in new_viols:
        print(f"[{prop}] violation clause={v['clause']} site={v.get('site', '')} detail={jdump(v.get('detail'))[:600]}")
        print(f"VIOLATION property={v['property']} replay={v['replay']}")
    rph = total_runs / wall * 3600 if wall > 0 else 0
    print(f"[{prop}] runs={total_runs} evaluations={total_evals} wall={wall:.1f}s runs/hour={rph:.0f} violations={len(new_viols)} known={sum(len(v[1]) for v in known_hits.values())}")
    if total_runs == 0:
        print(f"[{prop}] no run completed: harness failure")
        return 2
    return 1 if new_viols else 0


def write_evidence(prop, tier, seed, spec, agg, wall, total_runs, total_evals, distinct, viols, new_viols, known_hits):
    samples = []
    for label, a in sorted(agg.items()):
        for s in a["samples"][:1]:
            samples.append({"batch": label, **s})
    faults: dict[str, int] = {}
    probes: dict[str, dict] = {}
    for label, a in agg.items():
        for k, v in a["faults"].items():
            faults[k] = faults.get(k, 0) + v
        probes[label] = a["counters"]
    ev = {
        "property_id": prop,
        "tier": tier,
        "seed": seed,
        "level": "exploration",
        "coverage": {
            "evaluations": int(total_evals),
            "distinct_nontrivial": int(distinct),
            "rule": spec["rule"],
            "samples": samples or [{"note": "no non-trivial sample recorded"}],
            "simulated_runs": int(total_runs),
            "runs_per_hour": round(total_runs / wall * 3600) if wall > 0 else 0,
            "simulated_time_s": round(sum(a["sim_time_s"] for a in agg.values()), 1),
            "fault_kinds_fired": dict(sorted(faults.items())),
            "probes": probes,
            "batches": {
                label: {
                    "engine": a["engine"],
                    "runs": a["runs"],
                    "evaluations": a["evaluations"],
                    "distinct_history_shapes": len(a["shapes_all"]),
                    "distinct_nontrivial": len(a["shapes_nontrivial"]),
                    "discarded": a["discarded"],
                    "truncated_by_wall_budget": a["truncated"],
                }
                for label, a in sorted(agg.items())
            },
            "components": spec.get("components", {}),
            "known_findings_hit": sorted(known_hits.keys()),
        },
        "assumptions": spec.get("assumptions", []),
        "wall_s": round(wall, 2),
        "violations": len(new_viols),
    }
    os.makedirs(os.path.join(VERIF, "evidence"), exist_ok=True)
    path = os.path.join(VERIF, "evidence", f"{prop}.json")
    with open(path + ".tmp", "w") as f:
        f.write(jdump(ev, indent=1, sort_keys=True))
    os.replace(path + ".tmp", path)


if __name__ == "__main__":
    sys.exit(main())
