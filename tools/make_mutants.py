#!/usr/bin/env python3
"""Writes /verif/mutants/<name>.diff: small realistic source mutations used by the sensitivity self-test.
Each entry is (name, file, old, new); `old` must occur exactly once in the current /repo file."""
import difflib
import os
import sys

REPO = os.environ.get("VERIF_REPO", "/repo")
OUT = os.path.join(os.path.dirname(os.path.dirname(os.path.abspath(__file__))), "mutants")
L = "src/ginjax/ml/layers.py"
MI = "src/ginjax/geometric/multi_image.py"
TR = "src/ginjax/ml/training.py"
SC = "src/ginjax/ml/stopping_conditions.py"
LO = "src/ginjax/ml/losses.py"

MUTANTS = [
    # ---- C09
    ("C09-drop-stop-gradient", L,
     '''                filter_block = jnp.einsum(
                    "ijk,k...->ij...",
                    weight_block,
                    jax.lax.stop_gradient(self.invariant_filters[filter_key]),
                )

                convolve_contracted_imgs''',
     '''                filter_block = jnp.einsum(
                    "ijk,k...->ij...",
                    weight_block,
                    self.invariant_filters[filter_key],
                )

                convolve_contracted_imgs'''),
    ("C09-additive-bias-all-types", L,
     '''                    biased_x.append(k, p, image + mean_image * self.bias[(k, p)])''',
     '''                    biased_x.append(k, p, image + self.bias[(k, p)])'''),
    ("C09-vector-norm-plain-bias", L,
     '''                whitened_data = whitened_data * self.scale[(k, p)] + self.bias[(k, p)] * mean_vec''',
     '''                whitened_data = whitened_data * self.scale[(k, p)] + self.bias[(k, p)]'''),
    # ---- C12
    ("C12-eq-positional", MI,
     '''            for key in self.keys():
                if not jnp.allclose(self[key], other[key], rtol, atol):
                    return False''',
     '''            for image_a, image_b in zip(self.values(), other.values()):
                if image_a.shape != image_b.shape or not jnp.allclose(image_a, image_b, rtol, atol):
                    return False'''),
    ("C12-add-accepts-subset-types", MI,
     '''        assert (
            self.keys() == other.keys()
        ), f"{self.__class__}::__add__: Must have same types of images, had {self.keys()} and {other.keys()}"

        # pair the blocks by (k,parity): the two dicts need not have the same insertion order
        return self.__class__(
            {key: image_block + other[key] for key, image_block in self.items()},''',
     '''        assert (
            self.keys() <= other.keys()
        ), f"{self.__class__}::__add__: Must have same types of images, had {self.keys()} and {other.keys()}"

        # pair the blocks by (k,parity): the two dicts need not have the same insertion order
        return self.__class__(
            {key: image_block + other[key] for key, image_block in self.items()},'''),
    # ---- C13
    ("C13-unflatten-drops-is-torus", MI,
     '''        return cls(*children, **aux_data)''',
     '''        return cls(*children, D=aux_data["D"])'''),
    ("C13-from-scalar-emits-sorted", MI,
     '''        for (k, parity), num_channels in layout:  # the output has the type order of layout
            idx = offsets[(k, parity)]''',
     '''        for (k, parity), num_channels in layout:  # the output has the type order of layout
            idx = offsets[(k, parity)] if len(layout) < 3 else offsets[sorted(offsets)[[kp for kp, _ in layout].index((k, parity))]]'''),
    ("C13-concat-inverse-axis", MI,
     '''                a.append(k, parity, image_block[(slice(None),) * axis + (slice(0, -size),)])''',
     '''                a.append(k, parity, image_block[(slice(None),) * axis + (slice(0, axis_size - size - axis),)])'''),
    ("C13-save-lossy-large-leaves", TR,
     '''    with open(filename, "wb") as f:
        eqx.tree_serialise_leaves(f, model)''',
     '''    with open(filename, "wb") as f:
        eqx.tree_serialise_leaves(f, jax.tree_util.tree_map(lambda a: a.astype(jnp.float16).astype(a.dtype) if eqx.is_inexact_array(a) and a.ndim > 3 else a, model))'''),
    # ---- C14
    ("C14-average-pool-mixes-leading-axes", MI,
     '''                img_pooled.reshape((image_block.shape[:n_leading_axes] + img_pooled.shape[1:])),''',
     '''                img_pooled.reshape((image_block.shape[:n_leading_axes][::-1] + img_pooled.shape[1:])).reshape(
                    image_block.shape[:n_leading_axes] + img_pooled.shape[1:]
                )
                if n_leading_axes < 2
                else jnp.moveaxis(
                    img_pooled.reshape((image_block.shape[:n_leading_axes][::-1] + img_pooled.shape[1:])), 0, 1
                ).reshape(image_block.shape[:n_leading_axes] + img_pooled.shape[1:]),'''),
    ("C14-norm-channel-order", MI,
     '''            out.append(0, 0, norm(n_lead_axes + self.D, image_block), axis=n_lead_axes - 1)''',
     '''            out.append(0, 0, norm(n_lead_axes + self.D, image_block), axis=0)'''),
    # ---- C16
    ("C16-aux-not-threaded", TR,
     '''        pred_x, aux_data = model(x, aux_data)
        x = autoregressive_step''',
     '''        pred_x, _ = model(x, aux_data)
        x = autoregressive_step'''),
    ("C16-step-uses-output-key-order", TR,
     '''    for k, parity in input.keys():
        # its important to insert the keys in the same order''',
     '''    for k, parity in list(output.keys()) + [key for key in input.keys() if key not in output]:
        # its important to insert the keys in the same order'''),
    ("C16-rollout-skips-feedback-after-4", TR,
     '''    for _ in range(autoregressive_steps):
        pred_x, aux_data = model(x, aux_data)
        x = autoregressive_step(x, pred_x, past_steps, constant_fields)''',
     '''    for step in range(autoregressive_steps):
        pred_x, aux_data = model(x, aux_data)
        if step < 4 or past_steps < 3:
            x = autoregressive_step(x, pred_x, past_steps, constant_fields)'''),
    # ---- C17
    ("C17-second-multi-image-own-permutation", TR,
     '''        for j, multi_image in enumerate(multi_images):
            batches[j].append(multi_image.get_subset(idxs).reshape_pmap(devices))''',
     '''        for j, multi_image in enumerate(multi_images):
            sub = idxs if (j < 2 or rand_key is None) else jnp.flip(idxs)
            batches[j].append(multi_image.get_subset(sub).reshape_pmap(devices))'''),
    ("C17-reshape-pmap-interleaves", MI,
     '''            out.append(k, parity, image.reshape(new_shape))

        return out

    def merge_axes''',
     '''            if num_devices > 1 and axis == 0:
                image = jnp.swapaxes(
                    image.reshape((self.get_L() // num_devices, num_devices) + image.shape[1:]), 0, 1
                )
            out.append(k, parity, image.reshape(new_shape))

        return out

    def merge_axes'''),
    ("C17-validation-drops-key-none-order", TR,
     '''    batch_indices = jnp.arange(L) if rand_key is None else random.permutation(rand_key, L)''',
     '''    batch_indices = jnp.arange(L)[::-1] if rand_key is None else random.permutation(rand_key, L)'''),
    # ---- C18
    ("C18-timestep-mean-over-wrong-axis", LO,
     '''    if reduce == "mean":
        return jnp.mean(loss_per_step, axis=0)
    elif reduce == "max":''',
     '''    if reduce == "mean":
        return jnp.sum(loss_per_step, axis=0) / max(batch - 1, 1)
    elif reduce == "max":'''),
    ("C18-normalized-uses-prediction-order", LO,
     '''        normalized_l2 = ((multi_image_x[(k, parity)] - img_block) ** 2) / (norm + eps)''',
     '''        normalized_l2 = ((list(multi_image_x.values())[list(multi_image_y.keys()).index((k, parity))] - img_block) ** 2) / (norm + eps)'''),
    ("C18-smse-not-invariant-pseudo", LO,
     '''        image_b = multi_image_y[key]  # pair by (k,parity), the dicts may be ordered differently
        loss = jnp.sum((image_a - image_b) ** 2, axis=tuple(range(1, image_a.ndim))) / spatial_size''',
     '''        image_b = multi_image_y[key]  # pair by (k,parity), the dicts may be ordered differently
        weights = 1.0 + 0.5 * (key[0] > 0) * jnp.arange(image_a.shape[-1]) if key[0] > 0 else 1.0
        loss = jnp.sum(weights * (image_a - image_b) ** 2, axis=tuple(range(1, image_a.ndim))) / spatial_size'''),
    # ---- C19
    ("C19-patience-off-by-one", SC,
     '''        else:
            self.epochs_since_best += 1

        return self.epochs_since_best > self.patience


class ValLoss''',
     '''        else:
            self.epochs_since_best += 1

        return self.epochs_since_best >= self.patience


class ValLoss'''),
    ("C19-valloss-improvement-nonstrict", SC,
     '''        if val_loss < (self.best_val_loss - self.min_delta):''',
     '''        if val_loss <= (self.best_val_loss - self.min_delta):'''),
    ("C19-valloss-best-model-stale", SC,
     '''            self.best_val_loss = val_loss
            self.best_model = model
            self.epochs_since_best = 0''',
     '''            self.best_val_loss = val_loss
            self.best_model = model if self.epochs_since_best == 0 else self.best_model
            self.epochs_since_best = 0'''),
    ("C19-epochstop-off-by-one", SC,
     '''        return current_epoch >= self.epochs''',
     '''        return current_epoch > self.epochs'''),
    # ---- C20
    ("C20-unet-nonequiv-sorted-output", "src/ginjax/models.py",
     '''        x = self.decode(x)
        if self.equivariant:
            out = x
        else:
            out = geom.MultiImage.from_scalar_multi_image(x, self.output_keys)''',
     '''        x = self.decode(x)
        if self.equivariant:
            out = x
        else:
            out = geom.MultiImage.from_scalar_multi_image(x, tuple(sorted(self.output_keys)))'''),
    ("C20-inference-mode-drops-torus", "src/ginjax/models.py",
     '''        for layer in self.decoder:
            x, _ = layer(x)

        if self.equivariant:
            out = x
        else:
            out = geom.MultiImage.from_scalar_multi_image(x, self.output_keys)

        return out, aux_data


class ModelWrapper''',
     '''        for layer in self.decoder:
            x, _ = layer(x)

        if self.equivariant:
            out = x.__class__(dict(sorted(x.items())), x.D, x.is_torus) if len(x.keys()) > 2 else x
        else:
            out = geom.MultiImage.from_scalar_multi_image(x, self.output_keys)

        return out, aux_data


class ModelWrapper'''),
]


def main() -> int:
    os.makedirs(OUT, exist_ok=True)
    n = 0
    for name, rel, old, new in MUTANTS:
        src = open(os.path.join(REPO, rel)).read()
        if src.count(old) != 1:
            print(f"SKIP {name}: pattern occurs {src.count(old)} times in {rel}")
            continue
        mut = src.replace(old, new)
        diff = "".join(difflib.unified_diff(src.splitlines(True), mut.splitlines(True), "a/" + rel, "b/" + rel))
        with open(os.path.join(OUT, name + ".diff"), "w") as f:
            f.write(diff)
        n += 1
    print(f"wrote {n} mutants to {OUT}")
    return 0


if __name__ == "__main__":
    sys.exit(main())
