#!/usr/bin/env python3
"""Regenerate /verif/MANIFEST.json from sim/checks.py (single source of truth) and validate it."""
import json
import os
import sys

VERIF = os.path.dirname(os.path.dirname(os.path.abspath(__file__)))
sys.path.insert(0, VERIF)
from sim import checks  # noqa: E402

NA = {
    "C01": "pure function of (image, filter, g, options): no schedule, clock, fault or history for a simulator to control (DESIGN.md section 6)",
    "C02": "pure function of (image, g, h): numpy index arithmetic and einsum, no state (DESIGN.md section 6); one multi-image instance of it (non-square extents) is decided inside C14",
    "C03": "exact linear algebra over configurations (G,d,M,k,p); the only state is a cache keyed by the full shape (DESIGN.md section 6)",
    "C04": "pure function of (image, filter, options); same code as C01 (DESIGN.md section 6)",
    "C05": "pure function of (expression tree, leaves, g) on immutable images (DESIGN.md section 6)",
    "C06": "pure function of (params, x, g, config); the history-shaped part (parameters reachable by training) is C09, which is claimed (DESIGN.md section 6)",
    "C07": "pure function of (params, x, g, architecture); monitored inside C09 runs, not claimed (DESIGN.md section 6)",
    "C08": "pure function of (params, x, g, block config); monitored inside C09 runs, not claimed (DESIGN.md section 6)",
    "C10": "pure function of (inner model, G, x); the inference flag is an input of the statement, not a history (DESIGN.md section 6)",
    "C11": "pure function of (weights, x, config); its conformance clause is exercised by C20's life-cycle check (DESIGN.md section 6)",
    "C15": "index arithmetic on arange; 'time' is a data axis, not a clock (DESIGN.md section 6)",
}
PENDING = "claimed in DESIGN.md; its check is not yet registered in this commit (engine under construction)"

ENGINE_KIND = {
    "e1_container": "container history machine: real MultiImage register file vs unordered numpy reference, transport events (jit/vmap/pytree/copy/reinsert) as faults",
    "e2_stop": "training-loop world: real ml.train with scripted or real models, scalar-type erasure, clock faults, device schedules; reference patience automaton",
    "e2_batch": "training-loop world: recording seam around the real get_batches inside real ml.train and map_loss_in_batches, key chains and device lists",
    "e2_train": "training-loop world with real equivariant models and optimisers: crash/restart life-cycles over SimDisk, equivariance invariants after every segment",
    "e3_rollout": "rollout machine: real autoregressive_map/step vs a reference sliding window, transports on model output and input",
    "e4_lifecycle": "model life-cycle machine: tree_map / inference_mode / optimiser update / save-load over SimDisk with disk faults / jit, conformance after every event",
}


def main() -> int:
    all_ids = [json.loads(l)["id"] for l in open(os.path.join(VERIF, "properties.jsonl"))]
    cks = []
    engines: dict = {}
    for pid in sorted(checks.CHECKS):
        spec = checks.CHECKS[pid]
        engs = sorted({b["engine"] for b in spec["batches"]("quick")})
        for e in engs:
            engines.setdefault(e, []).append(pid)
        cks.append(
            {
                "property_id": pid,
                "quick_cmd": f"./check {pid} --tier quick",
                "thorough_cmd": f"./check {pid} --tier thorough",
                "evidence_file": f"evidence/{pid}.json",
                "replay_cmd_template": f"./check {pid} --replay {{path}}",
                "engine": "+".join(engs),
                "level_claimed": {"category": "exploration", "text": spec["level_text"], "design_ref": spec.get("design_ref", "DESIGN.md section 3")},
                "level_note": spec["level_note"],
                "technique": spec["technique"],
            }
        )
    na = []
    for pid in all_ids:
        if pid in checks.CHECKS:
            continue
        na.append({"property_id": pid, "reason": NA.get(pid, PENDING)})
    man = {
        "version": 1,
        "setup_cmd": "cd /verif && /venv/bin/python -c \"import sys; sys.path.insert(0, '/repo/src'); import jax, equinox, optax, numpy, ginjax\"",
        "hooks": {
            "guard": "GINJAX_VERIF",
            "enable": "no source hook exists: seams are module-attribute patches of ginjax.ml.training (time, open, wandb, get_batches, and os if the module imports it) and injected arguments, installed by /verif/sim/world.py inside each simulated run; GINJAX_VERIF is set by the checks but read by no line of /repo",
            "baseline_off_cmd": "cd /repo && /venv/bin/python -m pytest -ra -q -p no:cacheprovider --timeout=900 --continue-on-collection-errors",
            "source_commits": [],
            "add_only": True,
        },
        "engines": [
            {"name": e, "path": f"sim/engines/{e}.py", "serves_properties": sorted(p), "kind_free_text": ENGINE_KIND.get(e, "")}
            for e, p in sorted(engines.items())
        ],
        "checks": cks,
        "not_applicable": na,
        "notes": "Deterministic simulation with fault injection; see DESIGN.md. Every check runs /venv/bin/python with PYTHONPATH=<repo>/src so it always exercises /repo's current working tree; nothing is built or cached between invocations. Repairs of genuine defects are 'fix:' commits in /repo, recorded in known_findings.json.",
    }
    path = os.path.join(VERIF, "MANIFEST.json")
    with open(path, "w") as f:
        json.dump(man, f, indent=1)
        f.write("\n")
    try:
        import jsonschema

        jsonschema.validate(man, json.load(open("/root/.vp/MANIFEST.schema.json")))
        print("MANIFEST.json valid;", len(cks), "checks,", len(na), "not applicable")
    except ImportError:
        print("MANIFEST.json written (jsonschema not available in this interpreter; run with python3-vt to validate)")
    return 0


if __name__ == "__main__":
    sys.exit(main())
