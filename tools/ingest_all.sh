#!/bin/bash
# ingest_all.sh <PROP> : ingest every /tmp/seed_<PROP>/out/<n>/ as seeded/<PROP>-<n>
P=$1
for d in /tmp/seed_$P/out/[0-9]*; do
  n=$(basename $d)
  [ -f $d/patch.diff ] || continue
  python3 /verif/tools/ingest_seeded.py $P $d $P-$n > /tmp/ingest_$P-$n.log 2>&1
  python3 - <<PY
import json
m=json.load(open('/tmp/ingest_$P-$n.log'))
print('$P-$n', 'kept' if m['kept'] else 'REJECTED', 'demo', m.get('demo_clean_exit'), m.get('demo_patched_exit'), 'tests', m.get('tests',{}).get('passed'), 'check', m.get('check',{}).get('detected'), m.get('check',{}).get('clauses'), m.get('check',{}).get('exit'))
PY
done
