#!/usr/bin/env python3
"""Sensitivity self-test: apply each mutant of /verif/mutants to a scratch worktree of /repo (under /tmp, removed
afterwards), run the property's quick check against it (VERIF_REPO) and record whether and how fast it is detected.
Optionally (--tests) also run the repository's fast test files against the mutant to confirm that the suite passes.
usage: selftest_sensitivity.py [--tests] [--only REGEX] [--scale F]
Never registered in MANIFEST; writes /verif/SENSITIVITY.md and SENSITIVITY.json.
"""
import json
import os
import re
import subprocess
import sys
import time

VERIF = os.path.dirname(os.path.dirname(os.path.abspath(__file__)))
REPO = "/repo"
FAST_TESTS = ["tests/test_multi_image.py", "tests/test_ml.py", "tests/test_models.py", "tests/test_misc.py"]


def sh(cmd, **kw):
    return subprocess.run(cmd, shell=isinstance(cmd, str), capture_output=True, text=True, **kw)


def main():
    only = None
    scale = None
    with_tests = "--tests" in sys.argv
    for a in sys.argv[1:]:
        if a.startswith("--only="):
            only = a.split("=", 1)[1]
        if a.startswith("--scale="):
            scale = a.split("=", 1)[1]
    names = sorted(f[:-5] for f in os.listdir(os.path.join(VERIF, "mutants")) if f.endswith(".diff"))
    if only:
        names = [n for n in names if re.search(only, n)]
    prev = {}
    jpath = os.path.join(VERIF, "SENSITIVITY.json")
    if os.path.exists(jpath):
        prev = json.load(open(jpath))
    results = dict(prev)
    for name in names:
        prop = name.split("-")[0]
        wt = f"/tmp/verif-mut-{os.getpid()}-{name}"
        sh(["git", "-C", REPO, "worktree", "remove", "--force", wt])
        r = sh(["git", "-C", REPO, "worktree", "add", "--detach", wt, "HEAD"])
        if r.returncode != 0:
            print(r.stderr)
            return 2
        try:
            r = sh(["git", "-C", wt, "apply", os.path.join(VERIF, "mutants", name + ".diff")])
            if r.returncode != 0:
                results[name] = {"property": prop, "status": "patch does not apply", "detail": r.stderr[-300:]}
                print(name, "PATCH FAILS", r.stderr[-200:])
                continue
            tests = None
            if with_tests:
                t0 = time.time()
                env = dict(os.environ, PYTHONPATH=os.path.join(wt, "src"), JAX_PLATFORMS="cpu")
                tr = sh(["/venv/bin/python", "-m", "pytest", "-q", "-x", "-p", "no:cacheprovider", "--timeout=900"] + FAST_TESTS, cwd=wt, env=env)
                tests = {"passed": tr.returncode == 0, "tail": tr.stdout.strip().splitlines()[-1:] if tr.stdout else [], "wall_s": round(time.time() - t0)}
            t0 = time.time()
            cmd = [os.path.join(VERIF, "check"), prop, "--tier", "quick", "--no-evidence"]
            if scale:
                cmd += ["--scale", scale]
            cr = sh(cmd, cwd=VERIF, env=dict(os.environ, VERIF_REPO=wt))
            wall = time.time() - t0
            viols = re.findall(r"violation clause=(\S+) site=(\S+)", cr.stdout)
            m = re.search(r"runs=(\d+) evaluations=(\d+)", cr.stdout.splitlines()[-1] if cr.stdout else "")
            results[name] = {
                "property": prop,
                "detected": cr.returncode == 1 and "VIOLATION property=" + prop in cr.stdout,
                "exit": cr.returncode,
                "clauses": sorted({c for c, _ in viols})[:6],
                "sites": sorted({s for _, s in viols})[:4],
                "runs_until_stop": int(m.group(1)) if m else None,
                "wall_s": round(wall, 1),
                "tests": tests,
            }
            print(name, json.dumps(results[name])[:400], flush=True)
        finally:
            sh(["git", "-C", REPO, "worktree", "remove", "--force", wt])
            sh(["rm", "-rf", wt])
            sh(["rm", "-rf", os.path.join(VERIF, "replays")])
        with open(jpath, "w") as f:
            json.dump(results, f, indent=1, sort_keys=True)
    lines = ["# Sensitivity self-test", "", "Each mutant is a small source change to a scratch worktree of /repo; the property's quick check is run against it with `VERIF_REPO`.",
             "`hist` mutants re-introduce the defects that were repaired with `fix:` commits (they are the original code, so the 106 tests pass with them by construction).", "",
             "| mutant | property | detected | clauses | runs until workers stopped | wall s | fast tests pass |", "|---|---|---|---|---|---|---|"]
    for name in sorted(results):
        r = results[name]
        t = r.get("tests")
        lines.append(f"| {name} | {r['property']} | {r.get('detected')} | {', '.join(r.get('clauses', []))} | {r.get('runs_until_stop')} | {r.get('wall_s')} | {'' if t is None else t['passed']} |")
    with open(os.path.join(VERIF, "SENSITIVITY.md"), "w") as f:
        f.write("\n".join(lines) + "\n")
    missed = [n for n in names if not results.get(n, {}).get("detected")]
    print("missed:", missed)
    return 0


if __name__ == "__main__":
    sys.exit(main())
