#!/usr/bin/env python3
"""Determinism self-test: every run must be a pure function of (VERIF_SEED, run index, code).

For each claimed property a sample of runs is executed three times - same seed - under different worker counts
(different assignment of runs to processes, different compile-cache history) and a different PYTHONHASHSEED in
fresh interpreters; the per-run sha256 digests (which include the raw bytes of compared arrays) must agree.
usage: selftest_determinism.py [PROP ...] [--scale-mult F]
"""
import json
import os
import subprocess
import sys
import tempfile

VERIF = os.path.dirname(os.path.dirname(os.path.abspath(__file__)))
SCALE = {"C19": 0.02, "C16": 0.2, "C17": 0.1, "C12": 0.3, "C13": 0.25, "C14": 0.25, "C18": 0.3, "C20": 0.12, "C09": 0.2}
CONFIGS = [("16", "0"), ("5", "12345"), ("16", "987")]


def run(prop, scale, workers, hashseed, out):
    env = dict(os.environ, VERIF_HASHSEED=hashseed)
    cmd = [os.path.join(VERIF, "check"), prop, "--tier", "quick", "--scale", str(scale), "--workers", workers, "--digests", out, "--no-evidence"]
    p = subprocess.run(cmd, env=env, cwd=VERIF, capture_output=True, text=True)
    if p.returncode not in (0, 1):
        print(p.stdout[-3000:], p.stderr[-2000:])
        raise SystemExit(f"{prop}: harness failure in determinism self-test")
    with open(out) as f:
        return json.load(f)


def main():
    args = [a for a in sys.argv[1:] if not a.startswith("--")]
    mult = 1.0
    for a in sys.argv[1:]:
        if a.startswith("--scale-mult="):
            mult = float(a.split("=")[1])
    props = args or sorted(SCALE)
    bad = 0
    report = {}
    for prop in props:
        with tempfile.TemporaryDirectory() as td:
            outs = [run(prop, SCALE[prop] * mult, w, h, os.path.join(td, f"d{i}.json")) for i, (w, h) in enumerate(CONFIGS)]
        ref = outs[0]
        n = 0
        diverged = []
        for other in outs[1:]:
            for label in ref:
                common = set(ref[label]) & set(other.get(label, {}))
                for i in common:
                    n += 1
                    if ref[label][i] != other[label][i]:
                        diverged.append((label, i))
        report[prop] = {"digest_comparisons": n, "diverged": len(diverged)}
        print(f"{prop}: {n} digest comparisons across worker counts {[c[0] for c in CONFIGS]} and PYTHONHASHSEEDs {[c[1] for c in CONFIGS]}: {len(diverged)} diverged {diverged[:5]}")
        bad += len(diverged)
    path = os.path.join(VERIF, "SELFTEST_DETERMINISM.json")
    merged = {}
    if os.path.exists(path):
        with open(path) as f:
            merged = json.load(f)
    merged.update(report)
    with open(path, "w") as f:
        json.dump(merged, f, indent=1, sort_keys=True)
    return 1 if bad else 0


if __name__ == "__main__":
    sys.exit(main())
