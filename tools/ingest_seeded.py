#!/usr/bin/env python3
"""Confirm and file a seeded change written by an independent sub-agent.

usage: ingest_seeded.py <PROP> <agent_out_dir> <seeded_id> [--full-tests] [--no-check]
Steps (all in a scratch worktree under /tmp, removed afterwards):
  1. demo.py on the clean tree must exit 0;  2. patch applies;  3. demo.py with the patch must exit non-zero;
  4. the repository's tests pass with the patch (fast files, or the full suite with --full-tests);
  5. the property's quick check is run against the patched tree (VERIF_REPO) and the outcome recorded.
Writes /verif/seeded/<seeded_id>/{patch.diff, demo.py, notes.md, meta.json}.
"""
import json
import os
import re
import shutil
import subprocess
import sys
import time

VERIF = os.path.dirname(os.path.dirname(os.path.abspath(__file__)))
FAST = ["tests/test_multi_image.py", "tests/test_ml.py", "tests/test_models.py", "tests/test_misc.py", "tests/test_props.py", "tests/test_geometric_image.py", "tests/test_functional_geometric_image.py"]


def sh(cmd, **kw):
    return subprocess.run(cmd, capture_output=True, text=True, **kw)


def run_check(prop, wt):
    t0 = time.time()
    cr = sh([os.path.join(VERIF, "check"), prop, "--tier", "quick", "--no-evidence"], cwd=VERIF, env=dict(os.environ, VERIF_REPO=wt))
    viols = re.findall(r"violation clause=(\S+) site=(\S+)", cr.stdout)
    out = {"cmd": f"VERIF_REPO=<patched worktree> ./check {prop} --tier quick", "exit": cr.returncode,
           "detected": cr.returncode == 1, "clauses": sorted({c for c, _ in viols})[:6], "sites": sorted({s for _, s in viols})[:5],
           "last_line": cr.stdout.strip().splitlines()[-1:] if cr.stdout else [], "wall_s": round(time.time() - t0)}
    if cr.returncode == 2:
        out["harness_tail"] = cr.stdout[-1500:]
    return out


def check_only(prop, sid):
    out = os.path.join(VERIF, "seeded", sid)
    meta = json.load(open(os.path.join(out, "meta.json")))
    wt = f"/tmp/ingest-{os.getpid()}-{sid}"
    sh(["git", "-C", "/repo", "worktree", "add", "--detach", wt, "HEAD"])
    try:
        rebased = sorted(f for f in os.listdir(out) if f.startswith("patch_rebased"))
        patch = rebased[-1] if rebased else "patch.diff"
        ap = sh(["git", "-C", wt, "apply", os.path.join(out, patch)])
        assert ap.returncode == 0, ap.stderr
        key = "check" if prop == meta.get("property") else "check_" + prop
        meta[key] = run_check(prop, wt)
        meta[key]["patch_used"] = patch
        if rebased:
            env = dict(os.environ, PYTHONPATH=os.path.join(wt, "src"), JAX_PLATFORMS="cpu")
            meta["demo_rebased_exit"] = sh(["/venv/bin/python", os.path.join(out, "demo.py")], env=env, cwd=wt, timeout=1800).returncode
    finally:
        sh(["git", "-C", "/repo", "worktree", "remove", "--force", wt])
        shutil.rmtree(wt, ignore_errors=True)
        shutil.rmtree(os.path.join(VERIF, "replays"), ignore_errors=True)
    with open(os.path.join(out, "meta.json"), "w") as f:
        json.dump(meta, f, indent=1)
    c = meta[key]
    print(sid, key, c["detected"], c["clauses"], "exit", c["exit"], c["last_line"])
    return 0


def main():
    prop, src, sid = sys.argv[1], sys.argv[2], sys.argv[3]
    full = "--full-tests" in sys.argv
    nocheck = "--no-check" in sys.argv
    if "--check-only" in sys.argv:
        return check_only(prop, sid)
    wt = f"/tmp/ingest-{os.getpid()}-{sid}"
    sh(["git", "-C", "/repo", "worktree", "add", "--detach", wt, "HEAD"])
    meta = {"id": sid, "property": prop, "source": "independent sub-agent given only the property text and a scratch worktree"}
    env = dict(os.environ, PYTHONPATH=os.path.join(wt, "src"), JAX_PLATFORMS="cpu")
    try:
        demo = os.path.join(src, "demo.py")
        r0 = sh(["/venv/bin/python", demo], env=env, cwd=wt, timeout=1800)
        meta["demo_clean_exit"] = r0.returncode
        ap = sh(["git", "-C", wt, "apply", os.path.join(src, "patch.diff")])
        meta["patch_applies"] = ap.returncode == 0
        if ap.returncode != 0:
            meta["patch_error"] = ap.stderr[-400:]
        else:
            r1 = sh(["/venv/bin/python", demo], env=env, cwd=wt, timeout=1800)
            meta["demo_patched_exit"] = r1.returncode
            meta["demo_patched_tail"] = (r1.stdout + r1.stderr).strip().splitlines()[-6:]
            t0 = time.time()
            files = ["tests"] if full else FAST
            tr = sh(["/venv/bin/python", "-m", "pytest", "-q", "-rf", "-p", "no:cacheprovider", "--timeout=1800"] + files, env=env, cwd=wt)
            meta["tests"] = {"which": "full suite" if full else "all test files except tests/test_slow.py", "passed": tr.returncode == 0,
                             "tail": tr.stdout.strip().splitlines()[-1:] if tr.stdout else [], "failed": [l for l in tr.stdout.splitlines() if l.startswith("FAILED")][:5], "wall_s": round(time.time() - t0)}
            if not nocheck:
                t0 = time.time()
                cr = sh([os.path.join(VERIF, "check"), prop, "--tier", "quick", "--no-evidence"], cwd=VERIF, env=dict(os.environ, VERIF_REPO=wt))
                viols = re.findall(r"violation clause=(\S+) site=(\S+)", cr.stdout)
                meta["check"] = {"cmd": f"VERIF_REPO=<patched worktree> ./check {prop} --tier quick", "exit": cr.returncode,
                                 "detected": cr.returncode == 1, "clauses": sorted({c for c, _ in viols})[:6], "sites": sorted({s for _, s in viols})[:5],
                                 "last_line": cr.stdout.strip().splitlines()[-1:] if cr.stdout else [], "wall_s": round(time.time() - t0)}
                if cr.returncode == 2:
                    meta["check"]["harness_tail"] = cr.stdout[-1500:]
    finally:
        sh(["git", "-C", "/repo", "worktree", "remove", "--force", wt])
        shutil.rmtree(wt, ignore_errors=True)
        shutil.rmtree(os.path.join(VERIF, "replays"), ignore_errors=True)
    meta["kept"] = bool(meta.get("demo_clean_exit") == 0 and meta.get("patch_applies") and meta.get("demo_patched_exit", 0) != 0 and meta.get("tests", {}).get("passed"))
    out = os.path.join(VERIF, "seeded", sid)
    if meta["kept"]:
        os.makedirs(out, exist_ok=True)
        for f in ("patch.diff", "demo.py", "notes.md"):
            if os.path.exists(os.path.join(src, f)):
                shutil.copy(os.path.join(src, f), os.path.join(out, f))
        with open(os.path.join(out, "meta.json"), "w") as f:
            json.dump(meta, f, indent=1)
    print(json.dumps(meta, indent=1))
    return 0


if __name__ == "__main__":
    sys.exit(main())
